// modprobe: probe of /repo's csv and utf8 module cores (CSVParser, utf8helper::UTF8String), compiled
// directly from the module sources (no libblocc). One case per input line "<id> <words...>", one answer
// line "<id> <answer>" per case (flushed). argv[1] = per-case timeout in seconds.
//
// Encodings: byte string = lowercase hex, the empty byte string = "."; list = "-" for zero elements,
// otherwise the elements joined by ","; integers = decimal int64 text or "null".
//
// build: g++ -std=c++11 -O1 -g <san> -D_GLIBCXX_ASSERTIONS -I/repo/modules/csv -I/repo/modules/utf8 -I/repo
#include "csvparser.cpp"
#include "utf8helper.cpp"
#include "utf8helper_charmap.cpp"

#include <cerrno>
#include <csignal>
#include <cstdint>
#include <cstdio>
#include <cstdlib>
#include <cstring>
#include <iostream>
#include <stdexcept>
#include <string>
#include <unistd.h>
#include <vector>

namespace {

struct BadArg : std::runtime_error { explicit BadArg(const std::string& w) : std::runtime_error(w) {} };

std::vector<std::string> split(const std::string& s, char sep) {
  std::vector<std::string> v;
  size_t i = 0;
  for (;;) {
    size_t j = s.find(sep, i);
    if (j == std::string::npos) { v.push_back(s.substr(i)); break; }
    v.push_back(s.substr(i, j - i));
    i = j + 1;
  }
  return v;
}

std::vector<std::string> words(const std::string& s) {
  std::vector<std::string> v;
  size_t i = 0;
  while (i < s.size()) {
    while (i < s.size() && s[i] == ' ') ++i;
    if (i >= s.size()) break;
    size_t j = s.find(' ', i);
    if (j == std::string::npos) j = s.size();
    v.push_back(s.substr(i, j - i));
    i = j;
  }
  return v;
}

int hexval(char c) {
  if (c >= '0' && c <= '9') return c - '0';
  if (c >= 'a' && c <= 'f') return c - 'a' + 10;
  throw BadArg("hex");
}

std::string hexdec(const std::string& h) {
  if (h == ".") return std::string();
  if (h.empty() || (h.size() & 1)) throw BadArg("hex");
  std::string o;
  o.reserve(h.size() / 2);
  for (size_t i = 0; i < h.size(); i += 2) o.push_back((char)(hexval(h[i]) * 16 + hexval(h[i + 1])));
  return o;
}

std::string hexenc(const std::string& s) {
  if (s.empty()) return ".";
  static const char* d = "0123456789abcdef";
  std::string o;
  o.reserve(s.size() * 2);
  for (unsigned char c : s) { o.push_back(d[c >> 4]); o.push_back(d[c & 15]); }
  return o;
}

std::vector<std::string> listdec(const std::string& w) {
  std::vector<std::string> v;
  if (w == "-") return v;
  for (auto& e : split(w, ',')) v.push_back(hexdec(e));
  return v;
}

std::string listenc(const std::vector<std::string>& v) {
  if (v.empty()) return "-";
  std::string o;
  for (size_t i = 0; i < v.size(); ++i) { if (i) o.push_back(','); o += hexenc(v[i]); }
  return o;
}

struct OptInt { bool null; int64_t v; };

OptInt intdec(const std::string& w) {
  OptInt r{false, 0};
  if (w == "null") { r.null = true; return r; }
  if (w.empty()) throw BadArg("int");
  char* end = nullptr;
  errno = 0;
  long long x = strtoll(w.c_str(), &end, 10);
  if (errno != 0 || end == w.c_str() || *end != 0) throw BadArg("int");
  r.v = (int64_t)x;
  return r;
}

std::string dec(long long v) { return std::to_string(v); }
std::string udec(unsigned long long v) { return std::to_string(v); }

const std::string& arg(const std::vector<std::string>& a, size_t i) {
  if (i >= a.size()) throw BadArg("missing");
  return a[i];
}

// ------------------------------------------------------------------ csv
std::string errpos(const CSVParser& p) {
  return std::string(" err=") + (p.in_error() ? "1" : "0") + " pos=" + udec(p.error_position());
}

std::string doCsv(const std::vector<std::string>& a) {
  std::string S = hexdec(arg(a, 1)), E = hexdec(arg(a, 2));
  if (S.size() != 1 || E.size() != 1) throw BadArg("sep/enc");
  const std::string& op = arg(a, 3);
  CSVParser p((char)S[0], (char)E[0]);
  if (op == "ser") {
    std::vector<std::string> row = listdec(arg(a, 4));
    std::string out;
    p.serialize(out, row);
    return "ser=" + hexenc(out);
  }
  if (op == "de") {
    std::string line = hexdec(arg(a, 4));
    std::vector<std::string> out;
    bool r = p.deserialize(out, line);
    return std::string("ret=") + (r ? "1" : "0") + errpos(p) + " out=" + listenc(out);
  }
  if (op == "rt") {
    std::vector<std::string> row = listdec(arg(a, 4));
    std::string ser;
    p.serialize(ser, row);
    std::vector<std::string> out;
    bool r = p.deserialize(out, ser);
    return "ser=" + hexenc(ser) + " ret=" + (r ? "1" : "0") + errpos(p) + " out=" + listenc(out);
  }
  if (op == "lines") {
    std::vector<std::string> row = listdec(arg(a, 4));
    std::string ser;
    p.serialize(ser, row);
    std::vector<std::string> l;
    {
      size_t i = 0;
      while (i < ser.size()) {
        size_t j = ser.find('\n', i);
        if (j == std::string::npos) { l.push_back(ser.substr(i)); break; }
        l.push_back(ser.substr(i, j + 1 - i));
        i = j + 1;
      }
    }
    size_t K = l.size(), J = 0;
    std::vector<std::string> out;
    bool r;
    std::string head = "ser=" + hexenc(ser) + " nlines=" + udec(K);
    if (K == 0) {
      r = p.deserialize(out, std::string());
      J = 0;
    } else {
      r = p.deserialize(out, l[0]);
      J = 1;
      while (r && J < K) {
        r = p.deserialize_next(out, l[J]);
        ++J;
      }
    }
    return head + " used=" + udec(J) + " ret=" + (r ? "1" : "0") + errpos(p) + " out=" + listenc(out);
  }
  if (op == "feed" || op == "feedraw") {
    std::vector<std::string> L = listdec(arg(a, 4));
    if (L.empty()) throw BadArg("feed needs a line");
    std::vector<std::string> out;
    std::string rets;
    rets.push_back(p.deserialize(out, L[0]) ? '1' : '0');
    for (size_t i = 1; i < L.size(); ++i) {
      rets.push_back(p.deserialize_next(out, L[i]) ? '1' : '0');
    }
    return "rets=" + rets + errpos(p) + " out=" + listenc(out);
  }
  return "bad-op";
}

// ------------------------------------------------------------------ utf8
std::string cphex(utf8helper::codepoint u) {
  char b[16];
  snprintf(b, sizeof b, "%x", (unsigned)u);
  return b;
}

std::string state(const utf8helper::UTF8String& u) {
  std::string c;
  if (u.Size() == 0) c = "-";
  else {
    const std::vector<utf8helper::codepoint>& d = u.Data();
    for (size_t i = 0; i < d.size(); ++i) { if (i) c.push_back(','); c += cphex(d[i]); }
  }
  return "n=" + udec(u.Size()) + " raw=" + udec(u.RawSize()) + " cps=" + c + " s=" + hexenc(u.ToStdString());
}

std::string encodeScalar(uint32_t cp) {
  std::string e;
  if (cp < 0x80) e.push_back((char)cp);
  else if (cp < 0x800) { e.push_back((char)(0xc0 | (cp >> 6))); e.push_back((char)(0x80 | (cp & 0x3f))); }
  else if (cp < 0x10000) {
    e.push_back((char)(0xe0 | (cp >> 12))); e.push_back((char)(0x80 | ((cp >> 6) & 0x3f))); e.push_back((char)(0x80 | (cp & 0x3f)));
  } else {
    e.push_back((char)(0xf0 | (cp >> 18))); e.push_back((char)(0x80 | ((cp >> 12) & 0x3f)));
    e.push_back((char)(0x80 | ((cp >> 6) & 0x3f))); e.push_back((char)(0x80 | (cp & 0x3f)));
  }
  return e;
}

std::string doTableId() {
  unsigned long bad = 0;
  uint32_t first = 0;
  for (uint32_t cp = 1; cp <= 0x10FFFF; ++cp) {
    if (cp >= 0xD800 && cp <= 0xDFFF) continue;
    std::string enc = encodeScalar(cp);
    uint32_t pack = 0;
    for (unsigned char c : enc) pack = (pack << 8) | c;
    utf8helper::UTF8String u(enc);
    bool ok = u.Data().size() == 1 && u.Data()[0] == pack && u.RawSize() == enc.size() && u.ToStdString() == enc;
    if (!ok) { if (!bad) first = cp; ++bad; }
  }
  if (!bad) return "bad=0";
  return "bad=" + udec(bad) + " first=" + cphex(first);
}

std::string doU8(const std::vector<std::string>& a) {
  const std::string& op = arg(a, 1);
  if (op == "tableid") return doTableId();
  std::string text = hexdec(arg(a, 2));
  utf8helper::UTF8String u(text);
  if (op == "dec") return state(u);
  if (op == "at" || op == "atraw") {
    OptInt P = intdec(arg(a, 3));
    if (P.null) return "rerr invalid";
    /* plugin_utf8.cpp case At: `if (*a0.integer() < 0 || (uint64_t)*a0.integer() >= (uint64_t)u->Size()) throw INDEX_RANGE`
       (transcribed; the real plugin's `at` is driven through blocprobe by vlib/props/c18f.py, family u8.plugin_at) */
    if ((int64_t)P.v < 0 || (uint64_t)P.v >= (uint64_t)u.Size()) return "rerr range";
    size_t pos = (size_t)(int64_t)P.v;
    volatile utf8helper::codepoint c = u[pos];
    return "ok I:" + dec((int64_t)c);
  }
  if (op == "substr") {
    OptInt P = intdec(arg(a, 3));
    const std::string& nw = arg(a, 4);
    if (nw == "-") {
      if (P.null) return "rerr invalid";
      return "ok S:" + hexenc(u.Substr((size_t)P.v));
    }
    OptInt N = intdec(nw);
    if (P.null || N.null) return "rerr invalid";
    return "ok S:" + hexenc(u.Substr((size_t)P.v, (size_t)N.v));
  }
  if (op == "remove") {
    OptInt P = intdec(arg(a, 3)), N = intdec(arg(a, 4));
    if (P.null || N.null) return "rerr invalid";
    bool b = u.Remove((size_t)P.v, (size_t)N.v);
    return std::string("ok B:") + (b ? "1" : "0") + " " + state(u);
  }
  if (op == "insert") {
    OptInt P = intdec(arg(a, 3)), U = intdec(arg(a, 4));
    if (P.null) return "rerr invalid";
    if (U.null) return "ok B:0 " + state(u);
    bool b = u.Insert((size_t)P.v, (utf8helper::codepoint)(int64_t)U.v);
    return std::string("ok B:") + (b ? "1" : "0") + " " + state(u);
  }
  if (op == "insertc") {
    OptInt P = intdec(arg(a, 3));
    const std::string& h2 = arg(a, 4);
    if (P.null) return "rerr invalid";
    if (h2 == "null") return "ok I:0 " + state(u);
    if (h2 == "self") {   /* u.insert(p, u): the plugin passes the receiver's own storage */
      size_t k = u.Insert((size_t)P.v, u.Data());
      return "ok I:" + udec(k) + " " + state(u);
    }
    utf8helper::UTF8String u1(hexdec(h2));
    size_t k = u.Insert((size_t)P.v, u1.Data());
    return "ok I:" + udec(k) + " " + state(u);
  }
  return "bad-op";
}

std::string doCase(const std::string& rest) {
  std::vector<std::string> a = words(rest);
  if (a.empty()) return "bad-op";
  if (a[0] == "csv") return doCsv(a);
  if (a[0] == "u8") return doU8(a);
  return "bad-op";
}

std::string g_caseid;
void onAlarm(int) {
  std::string m = g_caseid + " diverges\n";
  ssize_t n = write(1, m.data(), m.size()); (void)n;
  _exit(3);
}

}  // namespace

int main(int argc, char** argv) {
  int tmo = 10;
  if (argc > 1) tmo = atoi(argv[1]);
  signal(SIGALRM, onAlarm);
  std::string line;
  while (std::getline(std::cin, line)) {
    if (line.empty()) continue;
    size_t sp = line.find(' ');
    g_caseid = line.substr(0, sp);
    std::string rest = sp == std::string::npos ? "" : line.substr(sp + 1);
    alarm(tmo);
    std::string out;
    try { out = doCase(rest); }
    catch (BadArg& e) { out = std::string("bad-arg ") + e.what(); }
    catch (std::exception& e) { out = std::string("foreign-exception ") + hexenc(std::string(e.what())); }
    alarm(0);
    out = g_caseid + " " + out + "\n";
    fwrite(out.data(), 1, out.size(), stdout);
    fflush(stdout);
  }
  return 0;
}
