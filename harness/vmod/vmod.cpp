// vmod — verification-only BLOC plugin module (C16, C17).
//
// Built twice by vlib/build_vmod.py: libbloc_vmod.so.<SOVERSION> (name "vmod") and, with
// -DVMOD_NAME=\"vmod2\", libbloc_vmod2.so.<SOVERSION> (name "vmod2": the "other module" of the receiver check in
// member_complex.cpp). Every constructor, the destructor and every method append one line to the event log:
//
//   C <mod>#<n> <ctor id> <arg dump>;...      object <n> of this module created (n = creation order, from 1)
//   D <mod>#<n>                               object handed back to destroyObject
//   D! <mod> <what>                           destroyObject on something that is not a live object of this module
//   M <mod>#<n> <method> <arg dump>;...       method executed on live object n
//   M! <mod> <method>                         method executed on something that is not a live object of this module
//   W <mod>#<n> <method> <k>=<dump>           value written back through INOUT argument k
//
// The log is the file descriptor named by the environment variable VMOD_LOG_FD (the probe creates a memfd and sets
// the variable before the first import); both modules write to the same descriptor, so the order of the lines is the
// order of the events. Without the variable the lines go to an in-module buffer readable through vmod_log_drain().
// Exported C symbols (dlsym'd by the probe): vmod_reset(), vmod_live_count(), vmod_log_drain().
//
// Object storage is one heap block per object (new/delete), so that AddressSanitizer reports any use of an object
// after it was destroyed, and any double destruction.
#include <blocc/plugin.h>
#include <blocc/collection.h>
#include <blocc/tuple.h>
#include <blocc/complex.h>
#include <blocc/exception_runtime.h>

#include <cinttypes>
#include <cstdio>
#include <cstdlib>
#include <cstring>
#include <set>
#include <string>
#include <unistd.h>

#ifndef VMOD_NAME
#define VMOD_NAME "vmod"
#endif

namespace
{

const uint32_t MAGIC = 0x564d4f44;

struct Obj
{
  uint32_t magic;
  int id;
  int64_t tag;            /* the integer given to ctor(integer), else 0 */
  std::string text;       /* the string given to ctor(string) */
  char payload[64];       /* redzone-friendly body: read on every method call */
};

std::set<void*> g_live;
int g_next = 0;
std::string g_buffer;

void emit(const std::string& line)
{
  const char * e = ::getenv("VMOD_LOG_FD");
  if (e && *e)
  {
    int fd = ::atoi(e);
    std::string l = line + "\n";
    ssize_t n = ::write(fd, l.data(), l.size());
    (void)n;
  }
  else
    g_buffer.append(line).append("\n");
}

std::string hexenc(const char * p, size_t n)
{
  static const char * d = "0123456789abcdef";
  std::string o;
  o.reserve(n * 2);
  for (size_t i = 0; i < n; ++i)
  {
    unsigned char c = (unsigned char) p[i];
    o.push_back(d[c >> 4]);
    o.push_back(d[c & 15]);
  }
  return o;
}

std::string objName(void * inst)
{
  if (g_live.find(inst) != g_live.end())
    return std::string(VMOD_NAME) + "#" + std::to_string(static_cast<Obj*>(inst)->id);
  return "foreign";
}

/* the canonical value text of harness/blocprobe.cpp (types left out: the kind letter says enough here) */
std::string dump(bloc::Value& v)
{
  const bloc::Type& t = v.type();
  if (v.isNull())
    return "N";
  if (t.level() > 0)
  {
    bloc::Collection * c = v.collection();
    std::string o = "T[";
    for (size_t i = 0; i < c->size(); ++i)
    {
      if (i) o.push_back(',');
      o += dump(c->at(i));
    }
    return o + "]";
  }
  char buf[64];
  switch (t.major())
  {
  case bloc::Type::BOOLEAN:
    return std::string("B:") + (*v.boolean() ? "1" : "0");
  case bloc::Type::INTEGER:
    return "I:" + std::to_string((long long) *v.integer());
  case bloc::Type::NUMERIC:
  {
    uint64_t b;
    double d = *v.numeric();
    memcpy(&b, &d, 8);
    if (d != d) b = 0x7ff8000000000000ULL;
    snprintf(buf, sizeof buf, "D:%016" PRIx64, b);
    return buf;
  }
  case bloc::Type::IMAGINARY:
  {
    uint64_t a, b;
    memcpy(&a, &v.imaginary()->a, 8);
    memcpy(&b, &v.imaginary()->b, 8);
    snprintf(buf, sizeof buf, "C:%016" PRIx64 ",%016" PRIx64, a, b);
    return buf;
  }
  case bloc::Type::LITERAL:
    return "S:" + hexenc(v.literal()->data(), v.literal()->size());
  case bloc::Type::TABCHAR:
    return "R:" + hexenc(v.tabchar()->data(), v.tabchar()->size());
  case bloc::Type::ROWTYPE:
  {
    bloc::Tuple * u = v.tuple();
    std::string o = "U(";
    for (size_t i = 0; i < u->size(); ++i)
    {
      if (i) o.push_back(',');
      o += dump(u->at(i));
    }
    return o + ")";
  }
  case bloc::Type::COMPLEX:
    return "O:" + objName(v.complex()->instance());
  default:
    return "?";
  }
}

std::string dumpArgs(bloc::Context& ctx, const std::vector<bloc::Expression*>& args)
{
  std::string o;
  for (size_t i = 0; i < args.size(); ++i)
  {
    if (i) o.push_back(';');
    o += dump(args[i]->value(ctx));
  }
  return o.empty() ? "-" : o;
}

/**********************************************************************/
/*  Constructors                                                      */
/**********************************************************************/
PLUGIN_TYPE ctor_i_args[] = { { "I", 0 } };
PLUGIN_TYPE ctor_l_args[] = { { "L", 0 } };
PLUGIN_TYPE ctor_b_args[] = { { "B", 0 } };
PLUGIN_TYPE ctor_ii_args[] = { { "I", 0 }, { "I", 0 } };

PLUGIN_CTOR ctors[] =
{
  { 0, 1, ctor_i_args, "vmod(integer): object tagged with the integer" },
  { 1, 1, ctor_l_args, "vmod(string): object tagged with the string" },
  { 2, 1, ctor_b_args, "vmod(boolean): always fails: true -> returns no object, false/null -> raises an error" },
  { 3, 2, ctor_ii_args, "vmod(integer, integer): object tagged with the sum" },
};

/**********************************************************************/
/*  Methods                                                           */
/**********************************************************************/
enum Method { Id = 0, Echo, Echoio, Self, Spawn, Fail, Peer, Tag, EchoT };

PLUGIN_ARG echo_args[] = {
  { PLUGIN_IN, { "B", 0 } }, { PLUGIN_IN, { "I", 0 } }, { PLUGIN_IN, { "N", 0 } }, { PLUGIN_IN, { "L", 0 } },
  { PLUGIN_IN, { "X", 0 } }, { PLUGIN_IN, { "C", 0 } },
};
PLUGIN_ARG echoio_args[] = {
  { PLUGIN_INOUT, { "B", 0 } }, { PLUGIN_INOUT, { "I", 0 } }, { PLUGIN_INOUT, { "N", 0 } }, { PLUGIN_INOUT, { "L", 0 } },
  { PLUGIN_INOUT, { "X", 0 } },
};
PLUGIN_ARG echot_args[] = {
  { PLUGIN_IN, { "R", 0 } }, { PLUGIN_IN, { "I", 1 } }, { PLUGIN_IN, { "L", 1 } },
};
PLUGIN_ARG spawn_args[] = { { PLUGIN_IN, { "I", 0 } } };
PLUGIN_ARG fail_args[] = { { PLUGIN_IN, { "I", 0 } } };
PLUGIN_ARG peer_args[] = { { PLUGIN_IN, { "O", 0 } } };

PLUGIN_METHOD methods[] =
{
  { Id,     "id",     { "I", 0 }, 0, nullptr,     "creation-order number of the object" },
  { Echo,   "echo",   { "I", 0 }, 6, echo_args,   "logs its six IN arguments (boolean, integer, decimal, string, bytes, complex number); returns 6" },
  { Echoio, "echoio", { "I", 0 }, 5, echoio_args, "logs its five INOUT arguments, then stores not b, i+1, n+0.5, l+\"!\", x+00 into them; returns 5" },
  { Self,   "self",   { "O", 0 }, 0, nullptr,     "returns a new reference to the receiver" },
  { Spawn,  "spawn",  { "O", 0 }, 1, spawn_args,  "returns a NEW object created by ctor(integer)" },
  { Fail,   "fail",   { "I", 0 }, 1, fail_args,   "fail(0) returns no value, any other argument raises an error" },
  { Peer,   "peer",   { "I", 0 }, 1, peer_args,   "logs the object passed as argument; returns its id (0 for null)" },
  { Tag,    "tag",    { "I", 0 }, 0, nullptr,     "the integer the object was constructed with" },
  { EchoT,  "echot",  { "I", 0 }, 3, echot_args,  "logs a tuple, a table of integer and a table of string; returns 3" },
};

class VMod : public bloc::plugin::PluginBase
{
public:
  VMod() { }
  virtual ~VMod() { }

  void declareInterface(PLUGIN_INTERFACE * interface) override
  {
    interface->name = VMOD_NAME;
    interface->method_count = sizeof(methods) / sizeof(PLUGIN_METHOD);
    interface->methods = methods;
    interface->ctors_count = sizeof(ctors) / sizeof(PLUGIN_CTOR);
    interface->ctors = ctors;
  }

  void * createObject(int ctor_id, bloc::Context& ctx, const std::vector<bloc::Expression*>& args) override
  {
    /* arguments first: an argument that raises leaves no object behind */
    std::string a = dumpArgs(ctx, args);
    int64_t tag = 0;
    std::string text;
    switch (ctor_id)
    {
    case 0:
    {
      bloc::Value& v = args[0]->value(ctx);
      if (!v.isNull()) tag = *v.integer();
      break;
    }
    case 1:
    {
      bloc::Value& v = args[0]->value(ctx);
      if (!v.isNull()) text = *v.literal();
      break;
    }
    case 2:
    {
      bloc::Value& v = args[0]->value(ctx);
      emit(std::string("F ") + VMOD_NAME + " ctor " + a);
      if (!v.isNull() && *v.boolean())
        return nullptr;
      throw bloc::RuntimeError(bloc::EXC_RT_OTHER_S, "vmod: constructor refused.");
    }
    case 3:
    {
      bloc::Value& v = args[0]->value(ctx);
      bloc::Value& w = args[1]->value(ctx);
      if (!v.isNull() && !w.isNull()) tag = (int64_t)((uint64_t)*v.integer() + (uint64_t)*w.integer());
      break;
    }
    default:
      break;
    }
    Obj * o = new Obj;
    o->magic = MAGIC;
    o->id = ++g_next;
    o->tag = tag;
    o->text = text;
    memset(o->payload, 0x5a, sizeof o->payload);
    g_live.insert(o);
    emit(std::string("C ") + VMOD_NAME + "#" + std::to_string(o->id) + " " + std::to_string(ctor_id) + " " + a);
    return o;
  }

  void destroyObject(void * object) override
  {
    auto it = g_live.find(object);
    if (it == g_live.end())
    {
      emit(std::string("D! ") + VMOD_NAME + " not-live");
      return;
    }
    Obj * o = static_cast<Obj*>(object);
    if (o->magic != MAGIC)
      emit(std::string("D! ") + VMOD_NAME + " bad-magic");
    emit(std::string("D ") + VMOD_NAME + "#" + std::to_string(o->id));
    g_live.erase(it);
    o->magic = 0;
    delete o;
  }

  bloc::Value * executeMethod(bloc::Complex& object_this, int method_id, bloc::Context& ctx,
                              const std::vector<bloc::Expression*>& args) override
  {
    const char * mname = "?";
    for (const PLUGIN_METHOD& m : methods)
      if (m.id == method_id) mname = m.name;
    void * inst = object_this.instance();
    /* the object body is read BEFORE the liveness registry is consulted, so that AddressSanitizer
     * sees the access when the storage is gone */
    Obj * o = static_cast<Obj*>(inst);
    volatile char probe = o->payload[0];
    (void)probe;
    if (g_live.find(inst) == g_live.end() || o->magic != MAGIC)
    {
      emit(std::string("M! ") + VMOD_NAME + " " + mname);
      throw bloc::RuntimeError(bloc::EXC_RT_OTHER_S, "vmod: method on a dead or foreign object.");
    }
    std::string head = std::string("M ") + VMOD_NAME + "#" + std::to_string(o->id) + " " + mname + " ";
    switch (method_id)
    {
    case Id:
      emit(head + "-");
      return new bloc::Value(bloc::Integer(o->id));
    case Tag:
      emit(head + "-");
      return new bloc::Value(bloc::Integer(o->tag));
    case Echo:
      emit(head + dumpArgs(ctx, args));
      return new bloc::Value(bloc::Integer(6));
    case EchoT:
      emit(head + dumpArgs(ctx, args));
      return new bloc::Value(bloc::Integer(3));
    case Echoio:
    {
      emit(head + dumpArgs(ctx, args));
      std::string w = std::string("W ") + VMOD_NAME + "#" + std::to_string(o->id) + " echoio ";
      for (unsigned k = 0; k < 5; ++k)
      {
        if (!args[k]->isVarName())
          throw bloc::RuntimeError(bloc::EXC_RT_OTHER_S, "vmod: INOUT argument is not a variable.");
        bloc::Value& cur = args[k]->value(ctx);
        bloc::Value nv;
        switch (k)
        {
        case 0: nv = cur.isNull() ? bloc::Value(bloc::Bool(true)) : bloc::Value(bloc::Bool(!*cur.boolean())); break;
        case 1: nv = cur.isNull() ? bloc::Value(bloc::Integer(1)) : bloc::Value(bloc::Integer((int64_t)((uint64_t)*cur.integer() + 1))); break;
        case 2: nv = cur.isNull() ? bloc::Value(bloc::Numeric(0.5)) : bloc::Value(bloc::Numeric(*cur.numeric() + 0.5)); break;
        case 3: nv = cur.isNull() ? bloc::Value(new bloc::Literal("!")) : bloc::Value(new bloc::Literal(*cur.literal() + "!")); break;
        default:
        {
          bloc::TabChar * t = cur.isNull() ? new bloc::TabChar() : new bloc::TabChar(*cur.tabchar());
          t->push_back(0);
          nv = bloc::Value(t);
          break;
        }
        }
        emit(w + std::to_string(k) + "=" + dump(nv));
        ctx.storeVariable(args[k]->symbolId(), std::move(nv));
      }
      return new bloc::Value(bloc::Integer(5));
    }
    case Self:
      emit(head + "-");
      return new bloc::Value(new bloc::Complex(object_this));
    case Spawn:
    {
      emit(head + dumpArgs(ctx, args));
      bloc::Complex * c = bloc::Complex::newInstance(object_this.typeId(), 0, ctx, args);
      return new bloc::Value(c);
    }
    case Fail:
    {
      emit(head + dumpArgs(ctx, args));
      bloc::Value& v = args[0]->value(ctx);
      if (!v.isNull() && *v.integer() == 0)
        return nullptr;
      throw bloc::RuntimeError(bloc::EXC_RT_OTHER_S, "vmod: method failed.");
    }
    case Peer:
    {
      emit(head + dumpArgs(ctx, args));
      bloc::Value& v = args[0]->value(ctx);
      if (v.isNull())
        return new bloc::Value(bloc::Integer(0));
      void * pi = v.complex()->instance();
      if (g_live.find(pi) == g_live.end())
        return new bloc::Value(bloc::Integer(-1));
      return new bloc::Value(bloc::Integer(static_cast<Obj*>(pi)->id));
    }
    default:
      break;
    }
    return nullptr;
  }
};

} /* namespace */

PLUGINCREATOR(VMod)

extern "C" LIBBLOC_DLL_EXPORT void vmod_reset()
{
  /* objects still alive (leaked by the library) are forgotten, not freed: a later destroyObject on one of them is
   * reported as 'D! not-live' */
  g_live.clear();
  g_next = 0;
  g_buffer.clear();
}

extern "C" LIBBLOC_DLL_EXPORT int vmod_live_count()
{
  return (int) g_live.size();
}

extern "C" LIBBLOC_DLL_EXPORT const char * vmod_log_drain()
{
  static std::string out;
  out.swap(g_buffer);
  g_buffer.clear();
  return out.c_str();
}
