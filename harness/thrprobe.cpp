// thrprobe — clones of a BLOC context run on real threads (property C14).
//
// Same line protocol as blocprobe (one case per line on stdin, one answer line on stdout, a crash
// produces no line and is classified by the supervisor), and blocprobe's canonical dumps are reused
// by including its source (its main() is renamed away).
//
//   <caseid> thr|seq <script> <hex source 0> [<hex source 1> ...]
//
// Context slot 0 (the "original") exists from the start with its own output file. <script> is a list
// of ROUNDS joined by '/'; a round is a list of ACTIONS joined by ','. In mode `thr` the actions of
// one round run CONCURRENTLY, one std::thread each, released together by a spin barrier; in mode
// `seq` they run one after the other in the order written (the sequential C++ reference). Rounds are
// separated by a join of all threads. Actions (I, S, D = context slot 0..15; P = source index;
// X = executable slot 0..15):
//   cI.P.X   bloc_parse_executable(ctx I, source P) -> executable X        (answer pX=ok | pX=perr+<no>)
//   xI.X     bloc_execute2(ctx I, executable X); then bloc_errno(), bloc_strerror() and
//            bloc_drop_returned(I) from the same thread     (answer rI=<1|0>:<errno>:<strerror hex>:<returned V|->)
//   kS.D     D := bloc_clone_context2(S, own file, same file)
//   pI       bloc_ctx_purge(I)            fI   bloc_free_context(I)        eX   bloc_free_executable(X)
//   nI       bloc_create_context (a fresh, unrelated context in slot I)
//   bI       bloc_break(I)                uI   bloc_reset_stop(I)
//   gI.B     Context::trusted(B) on I     vI.B bloc_ctx_enable_trace(I, B)          (B = 0|1)
//   lI       answer CI=... now and LEAK context I (never destroyed)
// After the last round every live context answers  CI=<hex output>~<dump as blocprobe's `dump`>
// (the dump ends with cond=<stop-condition bits: 4 = return/break pending> fn=<function table IN TABLE
// ORDER: hexname/arity/body/cached call contexts/return type,...>) and FI=<trusted 0|1><trace 0|1>.
// An action on a missing context/executable answers `?<action>`.
#define main blocprobe_main
#include "blocprobe.cpp"
#undef main

#include <thread>
#include <atomic>
#include <mutex>
#include <algorithm>

struct ThrCtx { bloc_context* ctx = nullptr; int fd = -1; };
static ThrCtx t_ctx[16];
static bloc_executable* t_exe[16];
static std::vector<std::string> t_src;
static std::mutex t_mu;
static std::vector<std::string> t_answers;

static void answer(const std::string& s) { std::lock_guard<std::mutex> g(t_mu); t_answers.push_back(s); }

static std::string plus(std::string s) { for (auto& c : s) if (c == ' ') c = '+'; return s; }

static std::string finalOf(int i) {
  ThrCtx& c = t_ctx[i];
  Context* cx = reinterpret_cast<Context*>(c.ctx);
  fflush(cx->ctxout());
  struct stat st; fstat(c.fd, &st);
  std::string o(st.st_size, 0);
  if (st.st_size) { ssize_t n = pread(c.fd, &o[0], o.size(), 0); if (n < 0) n = 0; o.resize(n); }
  return "C" + std::to_string(i) + "=" + hexenc(o) + "~" + plus(doDump(*cx)) +
         " F" + std::to_string(i) + "=" + (cx->trusted() ? "1" : "0") + (bloc_ctx_trace(c.ctx) ? "1" : "0");
}

static void doAction(const std::string& act) {
  std::vector<std::string> a = split(act.substr(1), '.');
  auto num = [&](size_t i) { return i < a.size() ? atoi(a[i].c_str()) & 15 : 0; };
  char k = act[0];
  if (k == 'c') {
    ThrCtx& c = t_ctx[num(0)]; size_t p = (size_t)atoi(a.at(1).c_str()); int x = num(2);
    if (!c.ctx || p >= t_src.size()) { answer("?" + act); return; }
    bloc_parsing_position pos = {0, 0};
    t_exe[x] = bloc_parse_executable(c.ctx, t_src[p].c_str(), &pos);
    answer("p" + std::to_string(x) + "=" + (t_exe[x] ? std::string("ok") : "perr+" + std::to_string(bloc_errno())));
    return;
  }
  if (k == 'x') {
    ThrCtx& c = t_ctx[num(0)]; bloc_executable* x = t_exe[num(1)];
    if (!c.ctx || !x) { answer("?" + act); return; }
    bloc_bool ok = bloc_execute2(c.ctx, x);
    int no = ok ? 0 : bloc_errno();
    std::string msg = ok ? "" : std::string(bloc_strerror());
    bloc_value* v = bloc_drop_returned(c.ctx);
    std::string ret = "-";
    if (v) { ret = dumpValue(*reinterpret_cast<Value*>(v), false); bloc_free_value(v); }
    answer("r" + std::to_string(num(0)) + "=" + (ok ? "1" : "0") + ":" + std::to_string(no) + ":" + hexenc(msg) + ":" + ret);
    return;
  }
  if (k == 'k') {
    ThrCtx& s = t_ctx[num(0)]; ThrCtx& d = t_ctx[num(1)];
    if (!s.ctx || d.ctx) { answer("?" + act); return; }
    d.fd = memfd();
    d.ctx = bloc_clone_context2(s.ctx, d.fd, d.fd);
    return;
  }
  if (k == 'n') {
    ThrCtx& d = t_ctx[num(0)];
    if (d.ctx) { answer("?" + act); return; }
    d.fd = memfd(); d.ctx = bloc_create_context(d.fd, d.fd);
    return;
  }
  if (k == 'p') { ThrCtx& c = t_ctx[num(0)]; if (!c.ctx) { answer("?" + act); return; } bloc_ctx_purge(c.ctx); return; }
  if (k == 'f') {
    ThrCtx& c = t_ctx[num(0)]; if (!c.ctx) { answer("?" + act); return; }
    bloc_free_context(c.ctx); c.ctx = nullptr; close(c.fd); c.fd = -1; return;
  }
  if (k == 'l') {  // forget the context without destroying it (keeps a scenario clear of a destructor defect it is not about)
    ThrCtx& c = t_ctx[num(0)]; if (!c.ctx) { answer("?" + act); return; }
    answer(finalOf(num(0))); c.ctx = nullptr; c.fd = -1; return;
  }
  if (k == 'e') { int x = num(0); if (!t_exe[x]) { answer("?" + act); return; } bloc_free_executable(t_exe[x]); t_exe[x] = nullptr; return; }
  if (k == 'b') { ThrCtx& c = t_ctx[num(0)]; if (!c.ctx) { answer("?" + act); return; } bloc_break(c.ctx); return; }
  if (k == 'g') { ThrCtx& c = t_ctx[num(0)]; if (!c.ctx) { answer("?" + act); return; } reinterpret_cast<Context*>(c.ctx)->trusted(num(1) != 0); return; }
  if (k == 'v') { ThrCtx& c = t_ctx[num(0)]; if (!c.ctx) { answer("?" + act); return; } bloc_ctx_enable_trace(c.ctx, num(1) ? bloc_true : bloc_false); return; }
  if (k == 'u') { ThrCtx& c = t_ctx[num(0)]; if (!c.ctx) { answer("?" + act); return; } bloc_reset_stop(c.ctx); return; }
  answer("?" + act);
}

static std::string doCase(const std::string& rest) {
  std::vector<std::string> w = split(rest, ' ');
  if (w.size() < 2) return "badcase";
  bool threads = w[0] == "thr";
  t_src.clear();
  for (size_t i = 2; i < w.size(); ++i) t_src.push_back(hexdec(w[i]));
  t_answers.clear();
  t_ctx[0].fd = memfd();
  t_ctx[0].ctx = bloc_create_context(t_ctx[0].fd, t_ctx[0].fd);
  std::string out;
  for (auto& round : split(w[1], '/')) {
    std::vector<std::string> acts = split(round, ',');
    if (!threads || acts.size() < 2) {
      for (auto& a : acts) if (!a.empty()) doAction(a);
    } else {
      std::atomic<int> ready(0);
      int n = (int)acts.size();
      std::vector<std::thread> ts;
      for (auto& a : acts)
        ts.emplace_back([&ready, n, a]() {
          ready.fetch_add(1);
          while (ready.load() < n) { /* spin: start together */ }
          doAction(a);
        });
      for (auto& t : ts) t.join();
    }
    // answers of one round in a canonical order (thread completion order is not a result)
    std::sort(t_answers.begin(), t_answers.end());
    for (auto& s : t_answers) { if (!out.empty()) out.push_back(' '); out += s; }
    t_answers.clear();
  }
  for (int i = 0; i < 16; ++i) if (t_ctx[i].ctx) { if (!out.empty()) out.push_back(' '); out += finalOf(i); }
  // release: executables first, then the contexts, clones before the context they were cloned from (slot order
  // reversed) — the order original-first is a scenario of its own (`f0` written in the script)
  for (auto& x : t_exe) { if (x) bloc_free_executable(x); x = nullptr; }
  for (int i = 15; i >= 0; --i) { ThrCtx& c = t_ctx[i]; if (c.ctx) { bloc_free_context(c.ctx); c.ctx = nullptr; } if (c.fd >= 0) { close(c.fd); c.fd = -1; } }
  return out;
}

int main(int argc, char** argv) {
  int tmo = 20;
  if (argc > 1) tmo = atoi(argv[1]);
  signal(SIGALRM, onAlarm);
  std::string line;
  while (std::getline(std::cin, line)) {
    if (line.empty()) continue;
    size_t sp = line.find(' ');
    g_caseid = line.substr(0, sp);
    std::string rest = sp == std::string::npos ? "" : line.substr(sp + 1);
    alarm(tmo);
    std::string out;
    try { out = doCase(rest); }
    catch (ParseError& pe) { out += "|uncaught-" + perr(pe); }
    catch (RuntimeError& re) { out += "|uncaught-" + rerr(re); }
    catch (std::exception& e) { out += std::string("|foreign-exception ") + hexenc(std::string(e.what())); }
    alarm(0);
    g_objids.clear();
    out = g_caseid + " " + out + "\n";
    fwrite(out.data(), 1, out.size(), stdout);
    fflush(stdout);
  }
  return 0;
}
