// capiprobe — executes *call sequences* through the public C API of BLOC (blocc/bloc_capi.h) ONLY.
// No C++ class of the library is used here: everything observed is what a C host program can observe.
//
// One case per line on stdin:   <caseid> seq <op> <op> ...      (an op is a comma separated word, payloads in hex)
// One line per case on stdout:  <caseid> <tok> <tok> ... leak=<0|1> end
// Tokens are written (and flushed) as the ops run, so that after a crash the supervisor still sees the tokens of
// the ops that completed; a line without the final `end` belongs to a case that killed the process.
//
// Handle tables: contexts c0..c3, symbols s0..s7, values v0..v15, expressions e0..e3, executables x0..x3.
// Token of an op:  [~<slot>=<dump>...!]<result>/<errno><+|->     (+ : bloc_strerror() is a non empty string)
//   The part before `!` is the RE-READ: just before every call that may invalidate library-owned pointers of a
//   context (parse, run, evaluate, register symbol, purge, purge working memory, free — in that context) every
//   library-owned bloc_value* handed out earlier for that context is read again through the API (type, null flag,
//   typed accessor, items) — under AddressSanitizer a stale pointer shows here — and its content is printed, so it
//   is also compared with the model. After the call those handles are dead (using them answers `pre`).
//   `pre` = the op violates a precondition of the handle state machine (dead/empty/occupied slot, foreign context):
//   nothing is called.
// At the end of a case everything the caller owns is freed (values, expressions, executables, contexts) and
// __lsan_do_recoverable_leak_check() says whether memory remains (build -fsanitize=address, run detect_leaks=1).
//
// Ops (see lean/BlocV/Model/CApi.lean `Op` for the model of each):
//   cnew,c | cclone,c,d,k (k=1 bloc_clone_context, k=2 bloc_clone_context2) | cfree,c | cpurge,c | cpwm,c
//   reg,c,s,HEXNAME,major,ndim | find,c,s,HEXNAME | store,c,s,v | storeu,c,s,v (witness only) | rstore,c,s,v (v library-owned / item) | load,c,s,v
//   vnull,v,major | vbool,v,b | vint,v,dec | vnum,v,hex16 | vlit,v,HEX|- | vraw,v,HEX|- | vimag,v,hex16,hex16 | vfree,v
//   alit,v,HEX|- | araw,v,HEX|- | anull,v | vdump,v | acc,v,K | accu,v,K   (K in b i n l x t u c; accu = synonym of acc)
//   tabitem,v,idx,w | tupitem,v,idx,w
//   eparse,c,e,HEXSRC,<model text> | efree,e | etype,c,e | eval,c,e,v
//   xparse,c,x,HEXSRC,<model text>,p | xfree,x | exec,x | exec2,c,x | drop,c,v | brk,c | rst,c | out,c
#include <blocc/bloc_capi.h>

#include <cstdio>
#include <cstdlib>
#include <cstring>
#include <cinttypes>
#include <string>
#include <vector>
#include <iostream>
#include <unistd.h>
#include <signal.h>
#include <sys/mman.h>
#include <sys/stat.h>
#include <fcntl.h>

#if defined(__has_feature)
#if __has_feature(address_sanitizer)
#define HAVE_LSAN 1
#endif
#endif
#if defined(__SANITIZE_ADDRESS__)
#define HAVE_LSAN 1
#endif
#ifdef HAVE_LSAN
#include <sanitizer/lsan_interface.h>
#endif

static const int NC = 4, NS = 8, NV = 16, NE = 4, NX = 4;

static std::string hexenc(const char* p, size_t n) {
  static const char* d = "0123456789abcdef";
  std::string o; o.reserve(n * 2);
  for (size_t i = 0; i < n; ++i) { unsigned char c = (unsigned char)p[i]; o.push_back(d[c >> 4]); o.push_back(d[c & 15]); }
  return o;
}
static int hv(char c) { return c <= '9' ? c - '0' : (c | 32) - 'a' + 10; }
static std::string hexdec(const std::string& h) {
  std::string o; o.reserve(h.size() / 2);
  for (size_t i = 0; i + 1 < h.size(); i += 2) o.push_back((char)((hv(h[i]) << 4) | hv(h[i + 1])));
  return o;
}
static uint64_t hex64(const std::string& h) { uint64_t v = 0; for (char c : h) v = (v << 4) | (uint64_t)hv(c); return v; }
static std::vector<std::string> split(const std::string& s, char sep) {
  std::vector<std::string> v; std::string cur;
  for (char c : s) { if (c == sep) { v.push_back(cur); cur.clear(); } else cur.push_back(c); }
  v.push_back(cur); return v;
}

// ---------------------------------------------------------------- handle tables
struct Sink { int fd; off_t rd; int refs; };
struct CtxSlot {
  bloc_context* p = nullptr; Sink* sink = nullptr; unsigned gen = 0;
  int cloneSrc = -1; unsigned cloneSrcGen = 0; unsigned long cloneStamp = 0; unsigned cloneGen = 0; unsigned long born = 0;
};
struct SymSlot { bloc_symbol* p = nullptr; int ctx = -1; unsigned gen = 0; };
enum VKind { V_EMPTY = 0, V_BOX, V_BOXITEM, V_LOAD, V_EVAL, V_ITEM };
struct ValSlot { bloc_value* p = nullptr; VKind kind = V_EMPTY; int ctx = -1; int root = -1; int expr = -1; };
struct ExprSlot { bloc_expression* p = nullptr; int ctx = -1; unsigned gen = 0; };
struct ExecSlot { bloc_executable* p = nullptr; int ctx = -1; unsigned gen = 0; unsigned long stamp = 0; };

static CtxSlot C[NC]; static SymSlot S[NS]; static ValSlot V[NV]; static ExprSlot E[NE]; static ExecSlot X[NX];
static unsigned long g_clock = 1;
static unsigned g_gen = 1;

static int memfd() {
  int fd = memfd_create("capiprobe", 0);
  if (fd < 0) { char tmpl[] = "/var/tmp/capiprobe.XXXXXX"; fd = mkstemp(tmpl); unlink(tmpl); }
  return fd;
}

// ---------------------------------------------------------------- canonical dump, through the API only
static std::string dumpValue(bloc_value* v) {
  bloc_type t = bloc_value_type(v);
  char buf[64];
  if (bloc_value_isnull(v)) { snprintf(buf, sizeof buf, "N%d.%u", (int)t.major, t.ndim); return buf; }
  if (t.ndim > 0) {
    bloc_array* a = nullptr;
    if (!bloc_table(v, &a) || !a) return "T?";
    snprintf(buf, sizeof buf, "T%d.%u[", (int)t.major, t.ndim);
    std::string o = buf; unsigned n = bloc_array_size(a);
    for (unsigned i = 0; i < n; ++i) { bloc_value* it = nullptr; if (i) o.push_back(','); o += bloc_array_item(a, i, &it) ? dumpValue(it) : std::string("?"); }
    o.push_back(']'); return o;
  }
  switch (t.major) {
  case BOOLEAN: { bloc_bool* b = nullptr; if (!bloc_boolean(v, &b) || !b) return "B?"; return *b ? "B1" : "B0"; }
  case INTEGER: { int64_t* i = nullptr; if (!bloc_integer(v, &i) || !i) return "I?"; return "I" + std::to_string((long long)*i); }
  case NUMERIC: { double* d = nullptr; if (!bloc_numeric(v, &d) || !d) return "D?"; uint64_t b; memcpy(&b, d, 8); if (*d != *d) b = 0x7ff8000000000000ULL; snprintf(buf, sizeof buf, "D%016" PRIx64, b); return buf; }
  case LITERAL: { const char* s = nullptr; if (!bloc_literal(v, &s) || !s) return "S?"; return "S" + hexenc(s, strlen(s)); }
  case TABCHAR: { const char* s = nullptr; unsigned n = 0; if (!bloc_tabchar(v, &s, &n) || (!s && n)) return "R?"; return "R" + hexenc(s, n); }
  case IMAGINARY: { bloc_pair* p = nullptr; if (!bloc_imaginary(v, &p) || !p) return "C?"; uint64_t a, b; memcpy(&a, &p->a, 8); memcpy(&b, &p->b, 8); snprintf(buf, sizeof buf, "C%016" PRIx64 ",%016" PRIx64, a, b); return buf; }
  case ROWTYPE: {
    bloc_row* r = nullptr; if (!bloc_tuple(v, &r) || !r) return "U?";
    std::string o = "U("; unsigned n = bloc_tuple_size(r);
    for (unsigned i = 0; i < n; ++i) { bloc_value* it = nullptr; if (i) o.push_back(','); o += bloc_tuple_item(r, i, &it) ? dumpValue(it) : std::string("?"); }
    o.push_back(')'); return o; }
  case COMPLEX: return "O";
  case POINTER: return "P";
  default: return "?!";
  }
}

static std::string errSuffix() {
  const char* m = bloc_strerror();
  return "/" + std::to_string(bloc_errno()) + ((m && *m) ? "+" : "-");
}

// ---------------------------------------------------------------- liveness bookkeeping
static bool ctxLive(int c) { return c >= 0 && c < NC && C[c].p != nullptr; }
static bool symLive(int s, int c) { return s >= 0 && s < NS && S[s].p && S[s].ctx == c && ctxLive(c) && S[s].gen == C[c].gen; }
static bool valLive(int v) { return v >= 0 && v < NV && V[v].kind != V_EMPTY; }
static bool valFree(int v) { return v >= 0 && v < NV && V[v].kind != V_BOX; }   // a slot holding a borrowed pointer may be overwritten
static bool isLib(const ValSlot& s) { return s.kind == V_LOAD || s.kind == V_EVAL || s.kind == V_ITEM; }
static void killVal(int v) { V[v] = ValSlot(); }
static void killBoxItems(int box) { for (int i = 0; i < NV; ++i) if (V[i].kind == V_BOXITEM && V[i].root == box) killVal(i); }
// a host write (store / assign) into context c ends the item pointers of c, and the evaluation results of c too:
// an operator may hand back one of its operands, so an evaluation result can be a variable's own cell
static void killCtxItems(int c) { for (int i = 0; i < NV; ++i) if ((V[i].kind == V_ITEM || V[i].kind == V_EVAL) && V[i].ctx == c) killVal(i); }
static void killExprVals(int e) { for (int i = 0; i < NV; ++i) if ((V[i].kind == V_EVAL || V[i].kind == V_ITEM) && V[i].expr == e) killVal(i); }

// Re-read every library-owned value pointer of context c (ASan sees a stale one), print it, then forget it.
static std::string reread(int c) {
  std::string o;
  for (int i = 0; i < NV; ++i) if (isLib(V[i]) && V[i].ctx == c) {
    o += "~" + std::to_string(i) + "=" + dumpValue(V[i].p);
    killVal(i);
  }
  // symbols stay valid across these calls (only purge/free end them): touch them too by looking their value up
  if (!o.empty()) o += "!";
  return o;
}
static void killCtxHandles(int c) {   // purge / free: symbols, expressions and executables of c are gone
  for (int i = 0; i < NS; ++i) if (S[i].ctx == c) S[i] = SymSlot();
  // expressions / executables stay owned by the caller (they must still be freed) but can no longer be used
}
static bool exprUsable(int e, int c) { return e >= 0 && e < NE && E[e].p && E[e].ctx == c && ctxLive(c) && E[e].gen == C[c].gen; }
static bool execUsable(int x) { return x >= 0 && x < NX && X[x].p && ctxLive(X[x].ctx) && X[x].gen == C[X[x].ctx].gen; }

static void flushCtx(int c) { if (ctxLive(c)) { FILE* f = bloc_ctx_out(C[c].p); if (f) fflush(f); f = bloc_ctx_err(C[c].p); if (f) fflush(f); } }
static void flushAll() { for (int i = 0; i < NC; ++i) flushCtx(i); }
static void sinkRelease(Sink* s) { if (s && --s->refs == 0) { close(s->fd); delete s; } }

static int kindIdx(const std::string& k) { const char* ks = "binlxtuc"; const char* p = strchr(ks, k.empty() ? '?' : k[0]); return p ? (int)(p - ks) : -1; }

// ---------------------------------------------------------------- one op
static std::string doOp(const std::string& op) {
  std::vector<std::string> a = split(op, ',');
  const std::string& cmd = a[0];
  auto I = [&](size_t i) -> int { return i < a.size() ? atoi(a[i].c_str()) : -1; };
  const std::string PRE = "pre";

  if (cmd == "cnew") {
    int c = I(1); if (c < 0 || c >= NC || C[c].p) return PRE;
    Sink* s = new Sink{memfd(), 0, 1};
    C[c] = CtxSlot(); C[c].p = bloc_create_context(s->fd, s->fd); C[c].sink = s; C[c].gen = g_gen++; C[c].born = g_clock++;
    return C[c].p ? "ok" : "null";
  }
  if (cmd == "cclone") {
    int c = I(1), d = I(2), k = I(3); if (!ctxLive(c) || d < 0 || d >= NC || C[d].p || (k != 1 && k != 2)) return PRE;
    flushAll();
    C[d] = CtxSlot();
    if (k == 1) { C[d].p = bloc_clone_context(C[c].p); C[d].sink = C[c].sink; C[d].sink->refs++; }
    else { Sink* s = new Sink{memfd(), 0, 1}; C[d].p = bloc_clone_context2(C[c].p, s->fd, s->fd); C[d].sink = s; }
    C[d].gen = g_gen++; C[d].born = g_clock++; C[d].cloneSrc = c; C[d].cloneSrcGen = C[c].gen; C[d].cloneStamp = g_clock++; C[d].cloneGen = C[d].gen;
    return C[d].p ? "ok" : "null";
  }
  if (cmd == "cfree") {
    int c = I(1); if (!ctxLive(c)) return PRE;
    std::string rr = reread(c);
    flushCtx(c);
    bloc_free_context(C[c].p);
    killCtxHandles(c);
    sinkRelease(C[c].sink);
    C[c] = CtxSlot();
    return rr + "ok";
  }
  if (cmd == "cpurge") {
    int c = I(1); if (!ctxLive(c)) return PRE;
    std::string rr = reread(c);
    bloc_ctx_purge(C[c].p);
    killCtxHandles(c);
    C[c].gen = g_gen++;
    return rr + "ok";
  }
  if (cmd == "cpwm") {
    int c = I(1); if (!ctxLive(c)) return PRE;
    std::string rr = reread(c);
    bloc_ctx_purge_working_mem(C[c].p);
    return rr + "ok";
  }
  if (cmd == "reg" || cmd == "find") {
    int c = I(1), s = I(2); if (!ctxLive(c) || s < 0 || s >= NS || a.size() < 4) return PRE;
    std::string name = hexdec(a[3]); if (name.empty()) return PRE;
    std::string rr;
    bloc_symbol* p;
    if (cmd == "reg") {
      if (a.size() < 6) return PRE;
      rr = reread(c);
      bloc_type t = { (bloc_type_major)I(4), (unsigned)I(5) };
      p = bloc_ctx_register_symbol(C[c].p, name.c_str(), t);
    } else p = bloc_ctx_find_symbol(C[c].p, name.c_str());
    if (!p) { S[s] = SymSlot(); return rr + "null"; }
    S[s].p = p; S[s].ctx = c; S[s].gen = C[c].gen;
    int k = s; for (int i = 0; i < NS; ++i) if (symLive(i, c) && S[i].p == p) { k = i; break; }
    return rr + "ok=" + std::to_string(k);
  }
  if (cmd == "store" || cmd == "storeu") {
    // storeu (witness of a recorded finding only): the item pointers into the context are NOT forgotten
    int c = I(1), s = I(2), v = I(3); if (!symLive(s, c) || !valLive(v) || V[v].kind != V_BOX) return PRE;
    bloc_bool r = bloc_ctx_store_variable(C[c].p, S[s].p, V[v].p);
    if (r) { killBoxItems(v); if (cmd == "store") killCtxItems(c); }
    return r ? "1" : "0";
  }
  // BEGIN C15R5
  if (cmd == "rstore") {
    // store a value the host does NOT own as a box of its own: a pointer from bloc_ctx_load_variable (any context, also a
    // clone / the original) or an item pointer (bloc_array_item / bloc_tuple_item, into a context or into a caller-owned box)
    // is passed to bloc_ctx_store_variable of context c. The library copies a variable's own cell (an lvalue) and MOVES
    // anything else: afterwards the item pointers of the target context are over (old payload released) and, when the
    // source was an item, so are the item pointers of the source's family (the element was moved out).
    int c = I(1), s = I(2), v = I(3); if (!symLive(s, c) || !valLive(v) || V[v].kind == V_BOX || V[v].kind == V_EVAL) return PRE;
    ValSlot src = V[v];
    bloc_bool r = bloc_ctx_store_variable(C[c].p, S[s].p, V[v].p);
    if (r) {
      killCtxItems(c);
      if (src.kind == V_ITEM) killCtxItems(src.ctx);
      if (src.kind == V_BOXITEM) killBoxItems(src.root);
    }
    return r ? "1" : "0";
  }
  // END C15R5
  if (cmd == "load") {
    int c = I(1), s = I(2), v = I(3); if (!symLive(s, c) || !valFree(v)) return PRE;
    bloc_value* p = bloc_ctx_load_variable(C[c].p, S[s].p);
    if (!p) return "null";
    killVal(v); V[v].p = p; V[v].kind = V_LOAD; V[v].ctx = c;
    return dumpValue(p);
  }
  if (cmd == "vnull" || cmd == "vbool" || cmd == "vint" || cmd == "vnum" || cmd == "vlit" || cmd == "vraw" || cmd == "vimag") {
    int v = I(1); if (!valFree(v) || a.size() < 3) return PRE;
    bloc_value* p = nullptr;
    if (cmd == "vnull") p = bloc_create_null((bloc_type_major)I(2));
    else if (cmd == "vbool") p = bloc_create_boolean(I(2) ? bloc_true : bloc_false);
    else if (cmd == "vint") p = bloc_create_integer((int64_t)strtoll(a[2].c_str(), nullptr, 10));
    else if (cmd == "vnum") { uint64_t b = hex64(a[2]); double d; memcpy(&d, &b, 8); p = bloc_create_numeric(d); }
    else if (cmd == "vlit") { if (a[2] == "-") p = bloc_create_literal(nullptr); else { std::string s = hexdec(a[2]); p = bloc_create_literal(s.c_str()); } }
    else if (cmd == "vraw") { if (a[2] == "-") p = bloc_create_tabchar(nullptr, 0); else { std::string s = hexdec(a[2]); p = bloc_create_tabchar(s.data(), (unsigned)s.size()); } }
    else { if (a.size() < 4) return PRE; uint64_t x = hex64(a[2]), y = hex64(a[3]); bloc_pair pr; memcpy(&pr.a, &x, 8); memcpy(&pr.b, &y, 8); p = bloc_create_imaginary(pr); }
    if (!p) return "null";
    killVal(v); V[v].p = p; V[v].kind = V_BOX;
    return dumpValue(p);
  }
  if (cmd == "vfree") {
    int v = I(1); if (!valLive(v) || V[v].kind != V_BOX) return PRE;
    killBoxItems(v);
    bloc_free_value(V[v].p); killVal(v);
    return "ok";
  }
  if (cmd == "alit" || cmd == "araw" || cmd == "anull") {
    int v = I(1); if (!valLive(v) || (V[v].kind != V_BOX && V[v].kind != V_LOAD)) return PRE;
    if (cmd != "anull" && a.size() < 3) return PRE;
    // the old payload is released: item pointers into it are over
    if (V[v].kind == V_BOX) killBoxItems(v); else killCtxItems(V[v].ctx);
    std::string r;
    if (cmd == "anull") { bloc_assign_null(V[v].p); r = "1"; }
    else {
      bloc_bool b;
      if (a[2] == "-") b = (cmd == "alit") ? bloc_assign_literal(V[v].p, nullptr) : bloc_assign_tabchar(V[v].p, nullptr, 0);
      else { std::string s = hexdec(a[2]); b = (cmd == "alit") ? bloc_assign_literal(V[v].p, s.c_str()) : bloc_assign_tabchar(V[v].p, s.data(), (unsigned)s.size()); }
      r = b ? "1" : "0";
    }
    return r + ":" + dumpValue(V[v].p);
  }
  if (cmd == "vdump") { int v = I(1); if (!valLive(v)) return PRE; return dumpValue(V[v].p); }
  if (cmd == "acc" || cmd == "accu") {
    int v = I(1); if (!valLive(v) || a.size() < 3) return PRE;
    int k = kindIdx(a[2]); if (k < 0) return PRE;
    bloc_value* p = V[v].p;   // `accu` once skipped a null guard around bloc_literal / bloc_tabchar: no guard is needed any more
    char buf[64];
    switch (k) {
    case 0: { bloc_bool* d = (bloc_bool*)1; if (!bloc_boolean(p, &d)) return "0"; return d ? (*d ? "1:B1" : "1:B0") : "1:null"; }
    case 1: { int64_t* d = (int64_t*)1; if (!bloc_integer(p, &d)) return "0"; return d ? "1:I" + std::to_string((long long)*d) : std::string("1:null"); }
    case 2: { double* d = (double*)1; if (!bloc_numeric(p, &d)) return "0"; if (!d) return "1:null"; uint64_t b; memcpy(&b, d, 8); snprintf(buf, sizeof buf, "1:D%016" PRIx64, b); return buf; }
    case 3: { const char* d = (const char*)1; if (!bloc_literal(p, &d)) return "0"; return d ? "1:S" + hexenc(d, strlen(d)) : std::string("1:null"); }
    case 4: { const char* d = (const char*)1; unsigned n = 0xdeadu; if (!bloc_tabchar(p, &d, &n)) return "0";
      // an EMPTY bytes value yields a NULL data pointer too (std::vector::data()): told apart by the null flag only;
      // a null value must come back as *buf = NULL and *len = 0 (both out parameters written)
      if (bloc_value_isnull(p)) return d ? "1:notnull!" : (n ? "1:null!len" : "1:null");
      return (d || n == 0) ? "1:R" + hexenc(d, n) : std::string("1:null!"); }
    case 5: { bloc_array* d = (bloc_array*)1; if (!bloc_table(p, &d)) return "0"; return d ? "1:sz" + std::to_string(bloc_array_size(d)) : std::string("1:null"); }
    case 6: { bloc_row* d = (bloc_row*)1; if (!bloc_tuple(p, &d)) return "0"; return d ? "1:sz" + std::to_string(bloc_tuple_size(d)) : std::string("1:null"); }
    default: { bloc_pair* d = (bloc_pair*)1; if (!bloc_imaginary(p, &d)) return "0"; if (!d) return "1:null"; uint64_t x, y; memcpy(&x, &d->a, 8); memcpy(&y, &d->b, 8); snprintf(buf, sizeof buf, "1:C%016" PRIx64 ",%016" PRIx64, x, y); return buf; }
    }
  }
  if (cmd == "tabitem" || cmd == "tupitem") {
    int v = I(1), idx = I(2), w = I(3); if (!valLive(v) || !valFree(w) || w == v || idx < 0) return PRE;
    bloc_value* it = nullptr; unsigned n = 0;
    if (cmd == "tabitem") {
      bloc_array* arr = (bloc_array*)1; if (!bloc_table(V[v].p, &arr)) return "0"; if (!arr) return "n";
      n = bloc_array_size(arr);
      if (!bloc_array_item(arr, (unsigned)idx, &it)) return "sz" + std::to_string(n) + ":0";
    } else {
      bloc_row* row = (bloc_row*)1; if (!bloc_tuple(V[v].p, &row)) return "0"; if (!row) return "n";
      n = bloc_tuple_size(row);
      if (!bloc_tuple_item(row, (unsigned)idx, &it)) return "sz" + std::to_string(n) + ":0";
    }
    ValSlot src = V[v];
    killVal(w); V[w].p = it;
    if (src.kind == V_BOX) { V[w].kind = V_BOXITEM; V[w].root = v; }
    else if (src.kind == V_BOXITEM) { V[w].kind = V_BOXITEM; V[w].root = src.root; }
    else { V[w].kind = V_ITEM; V[w].ctx = src.ctx; V[w].expr = src.expr; }
    return "sz" + std::to_string(n) + ":" + dumpValue(it);
  }
  if (cmd == "eparse") {
    int c = I(1), e = I(2); if (!ctxLive(c) || e < 0 || e >= NE || E[e].p || a.size() < 4) return PRE;
    std::string rr = reread(c);
    std::string src = hexdec(a[3]);
    bloc_expression* p = bloc_parse_expression(C[c].p, src.c_str());
    if (!p) return rr + "null";
    E[e].p = p; E[e].ctx = c; E[e].gen = C[c].gen;
    return rr + "ok";
  }
  if (cmd == "efree") {
    int e = I(1); if (e < 0 || e >= NE || !E[e].p) return PRE;
    killExprVals(e);
    bloc_free_expression(E[e].p); E[e] = ExprSlot();
    return "ok";
  }
  if (cmd == "etype") {
    int c = I(1), e = I(2); if (!exprUsable(e, c)) return PRE;
    bloc_type t = bloc_expression_type(C[c].p, E[e].p);
    return std::to_string((int)t.major) + "." + std::to_string(t.ndim);
  }
  if (cmd == "eval") {
    int c = I(1), e = I(2), v = I(3); if (!exprUsable(e, c) || !valFree(v)) return PRE;
    std::string rr = reread(c);
    bloc_value* p = bloc_evaluate_expression(C[c].p, E[e].p);
    flushCtx(c);
    if (!p) return rr + "null";
    killVal(v); V[v].p = p; V[v].kind = V_EVAL; V[v].ctx = c; V[v].expr = e;
    return rr + dumpValue(p);
  }
  if (cmd == "xparse") {
    int c = I(1), x = I(2); if (!ctxLive(c) || x < 0 || x >= NX || X[x].p || a.size() < 6) return PRE;
    std::string rr = reread(c);
    std::string src = hexdec(a[3]);
    bool usePos = I(5) != 0;
    bloc_parsing_position pos = { -7, -7 };
    bloc_executable* p = bloc_parse_executable(C[c].p, src.c_str(), usePos ? &pos : nullptr);
    if (!p) return rr + (usePos ? "null@" + std::to_string(pos.lno) + ":" + std::to_string(pos.pno) : std::string("null"));
    X[x].p = p; X[x].ctx = c; X[x].gen = C[c].gen; X[x].stamp = g_clock++;
    return rr + "ok";
  }
  if (cmd == "xfree") {
    int x = I(1); if (x < 0 || x >= NX || !X[x].p) return PRE;
    bloc_free_executable(X[x].p); X[x] = ExecSlot();
    return "ok";
  }
  if (cmd == "exec") {
    int x = I(1); if (!execUsable(x)) return PRE;
    int c = X[x].ctx;
    std::string rr = reread(c);
    bloc_bool r = bloc_execute(X[x].p);
    flushCtx(c);
    return rr + (r ? "1" : "0");
  }
  if (cmd == "exec2") {
    int c = I(1), x = I(2); if (!ctxLive(c) || !execUsable(x)) return PRE;
    // documented precondition: c is a clone of the parsing context, taken after the parse, not purged since
    if (C[c].cloneSrc != X[x].ctx || C[c].cloneSrcGen != X[x].gen || C[c].cloneStamp <= X[x].stamp || C[c].cloneGen != C[c].gen) return PRE;
    std::string rr = reread(c);
    bloc_bool r = bloc_execute2(C[c].p, X[x].p);
    flushCtx(c);
    return rr + (r ? "1" : "0");
  }
  if (cmd == "drop") {
    int c = I(1), v = I(2); if (!ctxLive(c) || !valFree(v)) return PRE;
    bloc_value* p = bloc_drop_returned(C[c].p);
    if (!p) return "null";
    killVal(v); V[v].p = p; V[v].kind = V_BOX;
    return dumpValue(p);
  }
  if (cmd == "brk") { int c = I(1); if (!ctxLive(c)) return PRE; bloc_break(C[c].p); return "ok"; }
  if (cmd == "rst") { int c = I(1); if (!ctxLive(c)) return PRE; bloc_reset_stop(C[c].p); return "ok"; }
  if (cmd == "out") {
    int c = I(1); if (!ctxLive(c)) return PRE;
    flushAll();
    Sink* s = C[c].sink; struct stat st; fstat(s->fd, &st);
    std::string o;
    if (st.st_size > s->rd) { o.resize(st.st_size - s->rd); ssize_t n = pread(s->fd, &o[0], o.size(), s->rd); if (n < 0) n = 0; o.resize(n); s->rd += n; }
    return "out=" + hexenc(o.data(), o.size());
  }
  return "badop";
}

static void releaseAll() {
  for (int i = 0; i < NV; ++i) { if (V[i].kind == V_BOX) bloc_free_value(V[i].p); V[i] = ValSlot(); }
  for (int i = 0; i < NE; ++i) { if (E[i].p) bloc_free_expression(E[i].p); E[i] = ExprSlot(); }
  for (int i = 0; i < NX; ++i) { if (X[i].p) bloc_free_executable(X[i].p); X[i] = ExecSlot(); }
  // youngest context first: a clone is released before the context it was cloned from
  for (;;) {
    int best = -1;
    for (int i = 0; i < NC; ++i) if (C[i].p && (best < 0 || C[i].born > C[best].born)) best = i;
    if (best < 0) break;
    bloc_free_context(C[best].p); sinkRelease(C[best].sink); C[best] = CtxSlot();
  }
  for (int i = 0; i < NS; ++i) S[i] = SymSlot();
}

static std::string g_caseid;
static void onAlarm(int) {
  const char* m = " diverges end\n";
  ssize_t n = write(1, m, strlen(m)); (void)n;
  _exit(3);
}

int main(int argc, char** argv) {
  int tmo = 10;
  if (argc > 1) tmo = atoi(argv[1]);
  signal(SIGALRM, onAlarm);
  setvbuf(stdout, nullptr, _IONBF, 0);
  std::string line;
  while (std::getline(std::cin, line)) {
    if (line.empty()) continue;
    std::vector<std::string> w = split(line, ' ');
    g_caseid = w[0];
    alarm(tmo);
    {
      // the error record is process-wide and has no reset entry point: a successful parse clears it (bloc_error_raz)
      bloc_context* k = bloc_create_context(2, 2);
      bloc_expression* e = bloc_parse_expression(k, "0\n");
      bloc_free_expression(e); bloc_free_context(k);
    }
    { std::string h = g_caseid; ssize_t n = write(1, h.data(), h.size()); (void)n; }
    for (size_t i = 1; i < w.size(); ++i) {
      if (w[i].empty() || w[i] == "seq") continue;
      std::string tok = " " + doOp(w[i]);
      // a `pre` op calls nothing: no error suffix needed, but keep the format uniform
      tok += errSuffix();
      ssize_t n = write(1, tok.data(), tok.size()); (void)n;
    }
    alarm(0);
    releaseAll();
    int leak = 0;
#ifdef HAVE_LSAN
    leak = __lsan_do_recoverable_leak_check() ? 1 : 0;
#else
    leak = -1;
#endif
    std::string tail = " leak=" + std::to_string(leak) + " end\n";
    { ssize_t n = write(1, tail.data(), tail.size()); (void)n; }
    // leaked blocks stay unreachable: a later check would report them again, so start afresh
    if (leak == 1) _exit(0);
  }
  return 0;
}
