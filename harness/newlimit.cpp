// newlimit.so — an `operator new` that refuses what the machine's allocator would refuse.
//
// Why: the correspondence runs the REAL modules under AddressSanitizer, and the sanitizer's own `operator new(size_t)` never
// throws std::bad_alloc — for a request it cannot serve it prints "AddressSanitizer: out-of-memory / allocation-size-too-big"
// and aborts the process (asan_new_delete.cpp, OPERATOR_NEW_BODY: `if (!nothrow && !res) ReportOutOfMemory(...)`), with or
// without `allocator_may_return_null=1`. So a `catch (std::bad_alloc&)` / `catch (std::exception&)` around an allocation —
// e.g. utf8 `reserve(n)` since /repo 2b1dab4 — can never be executed in the sanitizer build, although it is what runs on a
// plain build (glibc malloc returns NULL for a request beyond the address space / the overcommit limit, libstdc++'s
// `operator new` then throws std::bad_alloc).
//
// What: preloaded (LD_PRELOAD, together with ASAN_OPTIONS=verify_asan_link_order=0) into the probe processes of ONE case
// family (vlib/props/c18f.py, `u8.plugin_reserve`). `operator new(size_t n)` throws std::bad_alloc when n exceeds
// $BLOCV_NEW_LIMIT bytes and hands every other request to the next definition in the lookup order — the sanitizer's — so
// that all the checking of the sanitizer stays in force (same allocator, same `operator delete`). The model's environment
// parameter `memLimit` (Model/Mod/Utf8.lean `pluginReserve`, in elements of 4 bytes) is this limit divided by 4.
//
// Build (done by c18f.py into the build cache):  g++ -std=c++11 -O1 -shared -fPIC newlimit.cpp -o newlimit.so -ldl
#include <new>
#include <cstdlib>
#include <dlfcn.h>

static std::size_t limit_bytes() {
  static std::size_t v = [] {
    const char* s = getenv("BLOCV_NEW_LIMIT");
    return s ? (std::size_t) strtoull(s, nullptr, 10) : (std::size_t) -1;
  }();
  return v;
}

void* operator new(std::size_t n) {
  typedef void* (*fn_t)(std::size_t);
  static fn_t next = (fn_t) dlsym(RTLD_NEXT, "_Znwm");
  if (n > limit_bytes())
    throw std::bad_alloc();
  return next(n);
}
