// blocprobe — in-process probe of the BLOC library for the /verif correspondence checks.
//
// Reads one case per line on stdin:   <caseid> <op>|<op>|...
// Writes one line per case on stdout: <caseid> <res>|<res>|...
// Every payload (source text, output, strings) travels as lowercase hex, so any byte can be sent.
// A case that crashes the process produces no line: the supervisor (vlib/run.py) records the
// crash for that case id, classifies it from stderr and restarts the probe after it.
//
// Ops (K, J = context slot 0..15; X = executable slot 0..15):
//   new K [t]            create context K (t = trusted)            -> ok
//   clone K J            J := K.clone()                            -> ok
//   free K | purge K | freex X                                     -> ok
//   set K <hexname> <V>  register symbol and store the canonical value V (exact: any bits) -> ok
//   parse K X <hex>      Parser::parse                             -> ok | perr <code> <line>:<col>
//   run X [K]            Executable::run (in K when given)         -> ok <V> | ok- | rerr <code> [<hexarg>]
//   prog K <hex>         parse + run + free                        -> as parse / run
//   capi K <hex>         same through bloc_parse_executable / bloc_execute / bloc_drop_returned
//   step K <hex>         statement at a time (interactive path)    -> as prog, stops at first error
//   expr K <hex>         parse expression (parsing mode type), evaluate -> ty=<T> ok <V> | perr.. | ty=<T> rerr ..
//   dump K               every symbol slot + stacks                -> dump=...
//   out K                captured output of context K since last call -> out=<hex>
//   unparse X            Executable::unparse                       -> txt=<hex>
//   tok <hex> <sizes|lines:max|sr|->  token stream under a fragmentation -> toks=<code>:<hex>,...
#include <blocc/context.h>
#include <blocc/parser.h>
#include <blocc/string_reader.h>
#include <blocc/parse_expression.h>
#include <blocc/executable.h>
#include <blocc/collection.h>
#include <blocc/tuple.h>
#include <blocc/complex.h>
#include <blocc/functor_manager.h>
#include <blocc/exception_parse.h>
#include <blocc/exception_runtime.h>
#include <blocc/plugin_manager.h>
#include <blocc/bloc_capi.h>
#include <apps/read_file.cpp>   /* the command line's file reader, exercised by `tok … rf` (C13) */

#include <cstdio>
#include <cstdlib>
#include <cstring>
#include <cinttypes>
#include <string>
#include <vector>
#include <map>
#include <sstream>
#include <stdexcept>
#include <iostream>
#include <unistd.h>
#include <signal.h>
#include <sys/mman.h>
#include <sys/stat.h>
#include <fcntl.h>

using namespace bloc;

static std::string hexenc(const char* p, size_t n) {
  static const char* d = "0123456789abcdef";
  std::string o; o.reserve(n * 2);
  for (size_t i = 0; i < n; ++i) { unsigned char c = (unsigned char)p[i]; o.push_back(d[c >> 4]); o.push_back(d[c & 15]); }
  return o;
}
static std::string hexenc(const std::string& s) { return hexenc(s.data(), s.size()); }
static int hv(char c) { return c <= '9' ? c - '0' : (c | 32) - 'a' + 10; }
static std::string hexdec(const std::string& h) {
  std::string o; o.reserve(h.size() / 2);
  for (size_t i = 0; i + 1 < h.size(); i += 2) o.push_back((char)((hv(h[i]) << 4) | hv(h[i + 1])));
  return o;
}

// ---------------------------------------------------------------- canonical types / values
static char majorLetter(Type::TypeMajor m) {
  switch (m) {
  case Type::NO_TYPE: return '?'; case Type::BOOLEAN: return 'b'; case Type::INTEGER: return 'i';
  case Type::NUMERIC: return 'd'; case Type::LITERAL: return 's'; case Type::COMPLEX: return 'o';
  case Type::TABCHAR: return 'r'; case Type::ROWTYPE: return 'u'; case Type::POINTER: return 'p';
  case Type::IMAGINARY: return 'c';
  }
  return '!';
}
static std::string tyName(const Type& t, const TupleDecl::Decl* decl = nullptr) {
  std::string o; o.push_back(majorLetter(t.major())); o += std::to_string((unsigned)t.level());
  if (t.major() == Type::ROWTYPE) {
    if (decl && !decl->empty()) {
      o.push_back('{');
      for (size_t i = 0; i < decl->size(); ++i) { if (i) o.push_back(','); o += tyName((*decl)[i]); }
      o.push_back('}');
    } else { o += "#" + std::to_string((unsigned)t.minor()); }
  } else if (t.major() == Type::COMPLEX) {
    o += ":" + std::to_string((unsigned)t.minor());
  }
  return o;
}

static std::map<void*, int> g_objids;
static int objId(void* inst) {
  auto it = g_objids.find(inst);
  if (it != g_objids.end()) return it->second;
  int n = (int)g_objids.size() + 1; g_objids[inst] = n; return n;
}

static std::string dumpValue(const Value& cv, bool flags) {
  Value& v = const_cast<Value&>(cv);
  std::string o;
  const Type& t = v.type();
  if (v.isNull()) { o = "N:" + tyName(t); }
  else if (t.level() > 0) {
    Collection* c = v.collection();
    o = "T" + tyName(c->table_type(), &c->table_decl()) + "[";
    for (size_t i = 0; i < c->size(); ++i) { if (i) o.push_back(','); o += dumpValue(c->at(i), flags); }
    o.push_back(']');
  } else switch (t.major()) {
    case Type::BOOLEAN: o = std::string("B:") + (*v.boolean() ? "1" : "0"); break;
    case Type::INTEGER: o = "I:" + std::to_string((long long)*v.integer()); break;
    case Type::NUMERIC: { uint64_t b; double d = *v.numeric(); memcpy(&b, &d, 8); if (d != d) b = 0x7ff8000000000000ULL; /* NaN payloads are not compared */ char buf[32]; snprintf(buf, sizeof buf, "D:%016" PRIx64, b); o = buf; break; }
    case Type::IMAGINARY: { uint64_t a, b; memcpy(&a, &v.imaginary()->a, 8); memcpy(&b, &v.imaginary()->b, 8); char buf[48]; snprintf(buf, sizeof buf, "C:%016" PRIx64 ",%016" PRIx64, a, b); o = buf; break; }
    case Type::LITERAL: o = "S:" + hexenc(*v.literal()); break;
    case Type::TABCHAR: o = "R:" + hexenc(v.tabchar()->data(), v.tabchar()->size()); break;
    case Type::ROWTYPE: {
      Tuple* u = v.tuple(); o = "U" + tyName(u->tuple_type(), &u->tuple_decl()) + "(";
      for (size_t i = 0; i < u->size(); ++i) { if (i) o.push_back(','); o += dumpValue(u->at(i), flags); }
      o.push_back(')'); break; }
    case Type::COMPLEX: o = "O:" + std::to_string((unsigned)v.complex()->typeId()) + "#" + std::to_string(objId(v.complex()->instance())); break;
    case Type::POINTER: o = "P>" + dumpValue(v.deref_value(), flags); break;
    default: o = "?!"; break;
  }
  if (flags) o += v.lvalue() ? "/l" : "/t";
  return o;
}


// ---------------------------------------------------------------- canonical text -> Value
static Type::TypeMajor letterMajor(char c) {
  switch (c) { case 'b': return Type::BOOLEAN; case 'i': return Type::INTEGER; case 'd': return Type::NUMERIC;
  case 's': return Type::LITERAL; case 'o': return Type::COMPLEX; case 'r': return Type::TABCHAR;
  case 'u': return Type::ROWTYPE; case 'p': return Type::POINTER; case 'c': return Type::IMAGINARY; default: return Type::NO_TYPE; }
}
static unsigned long parseNum(const char*& p) { unsigned long n = 0; while (*p >= '0' && *p <= '9') n = n * 10 + (*p++ - '0'); return n; }
static Type parseTy(const char*& p, TupleDecl::Decl* decl) {
  Type::TypeMajor m = letterMajor(*p++);
  unsigned lv = (unsigned)parseNum(p);
  unsigned minor = 0;
  if (*p == '#') { ++p; minor = (unsigned)parseNum(p); }
  else if (*p == ':' && m == Type::COMPLEX) { ++p; minor = (unsigned)parseNum(p); }
  else if (*p == '{') {
    ++p; TupleDecl::Decl d;
    while (*p && *p != '}') { d.push_back(parseTy(p, nullptr)); if (*p == ',') ++p; }
    if (*p == '}') ++p;
    Type t = d.make_type(lv);
    if (decl) *decl = d;
    return t;
  }
  return Type(m, minor, lv);
}
static std::string parseHexRun(const char*& p) {
  const char* b = p; while ((*p >= '0' && *p <= '9') || (*p >= 'a' && *p <= 'f')) ++p;
  return hexdec(std::string(b, p - b));
}
static uint64_t parseHex64(const char*& p) { uint64_t v = 0; while ((*p >= '0' && *p <= '9') || (*p >= 'a' && *p <= 'f')) v = (v << 4) | hv(*p++); return v; }
static Value parseCanon(const char*& p) {
  char k = *p;
  if (k == 'N' && p[1] == ':') { p += 2; return Value(parseTy(p, nullptr)); }
  if (k == 'B' && p[1] == ':') { p += 2; bool b = (*p++ == '1'); return Value(Bool(b)); }
  if (k == 'I' && p[1] == ':') { p += 2; bool neg = false; if (*p == '-') { neg = true; ++p; } uint64_t n = 0; while (*p >= '0' && *p <= '9') n = n * 10 + (uint64_t)(*p++ - '0'); return Value(Integer(neg ? (uint64_t)0 - n : n)); }
  if (k == 'D' && p[1] == ':') { p += 2; uint64_t b = parseHex64(p); double d; memcpy(&d, &b, 8); return Value(Numeric(d)); }
  if (k == 'C' && p[1] == ':') { p += 2; uint64_t a = parseHex64(p); if (*p == ',') ++p; uint64_t b = parseHex64(p); Imaginary* im = new Imaginary; memcpy(&im->a, &a, 8); memcpy(&im->b, &b, 8); return Value(im); }
  if (k == 'S' && p[1] == ':') { p += 2; return Value(new Literal(parseHexRun(p))); }
  if (k == 'R' && p[1] == ':') { p += 2; std::string s = parseHexRun(p); return Value(new TabChar(s.begin(), s.end())); }
  if (k == 'U') { ++p; TupleDecl::Decl d; parseTy(p, &d); Tuple::container_t items; if (*p == '(') ++p;
    while (*p && *p != ')') { items.push_back(parseCanon(p)); if (*p == ',') ++p; }
    if (*p == ')') ++p; return Value(new Tuple(std::move(items))); }
  if (k == 'T') { ++p; TupleDecl::Decl d; Type t = parseTy(p, &d); Collection::container_t elems; if (*p == '[') ++p;
    while (*p && *p != ']') { elems.push_back(parseCanon(p)); if (*p == ',') ++p; }
    if (*p == ']') ++p;
    if (t.major() == Type::ROWTYPE) return Value(new Collection(d, t.level(), std::move(elems)));
    return Value(new Collection(t, std::move(elems))); }
  throw std::runtime_error("bad canonical value");
}

// ---------------------------------------------------------------- state
struct CtxSlot { Context* ctx = nullptr; int fd = -1; off_t rd = 0; };
static CtxSlot g_ctx[16];
static Executable* g_exe[16];

static int memfd() {
  int fd = memfd_create("blocprobe", 0);
  if (fd < 0) { char tmpl[] = "/var/tmp/blocprobe.XXXXXX"; fd = mkstemp(tmpl); unlink(tmpl); }
  return fd;
}

static std::string readOut(CtxSlot& s) {
  if (!s.ctx) return "";
  fflush(s.ctx->ctxout());
  if (s.ctx->ctxerr() && s.ctx->ctxerr() != s.ctx->ctxout()) fflush(s.ctx->ctxerr());
  struct stat st; fstat(s.fd, &st);
  std::string o;
  if (st.st_size > s.rd) {
    o.resize(st.st_size - s.rd);
    ssize_t n = pread(s.fd, &o[0], o.size(), s.rd);
    if (n < 0) n = 0;
    o.resize(n); s.rd += n;
  }
  return o;
}

static std::string perr(const ParseError& pe) {
  std::string o = "perr " + std::to_string((int)pe.no);
  if (pe.token) o += " " + std::to_string(pe.token->line) + ":" + std::to_string(pe.token->column);
  return o;
}
static std::string rerr(const RuntimeError& re) {
  std::string o = "rerr " + std::to_string((int)re.no);
  if (re.no == EXC_RT_USER_S) {
    // the user name is the message itself for code 1
    o += " " + hexenc(std::string(re.what()));
  }
  return o;
}

static std::string retValue(Context& ctx) {
  Value* r = ctx.dropReturned();
  if (!r) return "ok-";
  std::string o = "ok " + dumpValue(*r, false);
  delete r;
  return o;
}

static std::string doDump(Context& c) {
  std::ostringstream o;
  o << "dump=";
  for (size_t i = 0; i < c.verifSymbolCount(); ++i) {
    const Symbol& s = c.verifSymbolAt(i);
    if (i) o << ";";
    o << hexenc(s.name()) << ":" << tyName(s, &s.tuple_decl()) << ":s" << (s.safety() ? 1 : 0) << "l" << (s.locked() ? 1 : 0)
      << "=" << dumpValue(c.verifValueAt(i), true);
  }
  o << " cd=" << c.verifControlDepth() << " ed=" << c.verifExecDepth() << " tmp=" << c.verifTempCount()
    << " bk=" << c.verifBackedCount() << " cond=" << c.verifConditions() << " fn=";
  const auto& decls = c.functorManager().declarations();
  bool first = true;
  for (const auto& e : decls) {
    if (!first) o << ","; first = false;
    size_t cache = 0; for (auto* x : e.ctx_cache) { (void)x; ++cache; }
    o << hexenc(e.functor->name) << "/" << e.functor->params.size() << "/" << (e.functor->body ? 1 : 0) << "/" << cache
      << "/" << tyName(e.functor->returns);
  }
  return o.str();
}

// a StreamReader serving prescribed fragment sizes (C13)
class FragReader : public Parser::StreamReader {
  std::string text; size_t pos = 0; std::vector<int> sizes; size_t k = 0; bool lines; int maxl;
public:
  FragReader(const std::string& t, const std::vector<int>& s, bool lineMode, int maxLine) : text(t), sizes(s), lines(lineMode), maxl(maxLine) {}
  int read(Parser*, char* buf, int max_size) override {
    if (pos >= text.size()) return 0;
    int n = 0;
    if (lines) {
      // the library's own line discipline (string_reader.cpp): stop after '\n' or at max
      int lim = maxl < max_size ? maxl : max_size;
      while (pos < text.size() && n < lim) { char c = text[pos++]; buf[n++] = c; if (c == '\n') break; }
      return n;
    }
    int want = sizes.empty() ? max_size : sizes[k < sizes.size() ? k : sizes.size() - 1];
    ++k;
    if (want > max_size) want = max_size;
    if (want < 1) want = 1;
    while (pos < text.size() && n < want) buf[n++] = text[pos++];
    return n;
  }
};

static std::vector<std::string> split(const std::string& s, char sep) {
  std::vector<std::string> v; std::string cur;
  for (char c : s) { if (c == sep) { v.push_back(cur); cur.clear(); } else cur.push_back(c); }
  v.push_back(cur); return v;
}

static std::string runExec(Executable* x, Context* in) {
  Context& c = in ? *in : x->context();
  try {
    if (in) Executable::run(*in, x->statements()); else x->run();
    return retValue(c);
  } catch (RuntimeError& re) { return rerr(re); }
}

static std::string doStep(Context& ctx, const std::string& src) {
  // the interactive path: one statement at a time, parse then execute (apps/cli_parser.cpp main loop)
  StringReader reader(src);
  Parser* p = Parser::createInteractiveParser(ctx, reader);
  if (!p) return "perr -1";
  std::string res = "ok-";
  try {
    for (;;) {
      Statement* s = nullptr;
      try { s = p->parseStatement(); }
      catch (ParseError& pe) {
        if (pe.no == EXC_PARSE_EOF) break;
        res = perr(pe); break;
      }
      if (s == nullptr) { if (p->state() == Parser::Aborted) break; continue; }
      try {
        std::list<const Statement*> l; l.push_back(s);
        Executable::run(ctx, l);
        delete s;
      } catch (RuntimeError& re) { delete s; res = rerr(re); break; }
      if (ctx.returnCondition()) { res = retValue(ctx); ctx.returnCondition(false); break; }
    }
  } catch (...) { delete p; throw; }
  delete p;
  return res;
}

// BEGIN INT
// The interactive runner as apps/cli_parser.cpp runs it (main loop of `bloc -i`): every statement is parsed on its own and its
// chain is executed with Statement::execute directly — NOT through Executable::run; the loop's own handler calls
// Context::onRuntimeError() (repo 3db7ed2; before: only purgeWorkingMemory) and goes on with the next statement. This op is a hand
// copy of that loop: vlib/props/c07.py checks that the cli's source still has this shape. The statements stay alive until the
// session ends (the cli keeps them in `statements`): here until the case's contexts are released (intReleaseKept).
//   istep K <hex>   -> steps=<r1>,<r2>,…  with ri = ok | ret | rerr <code>[ <hexname>] | perr <code> <l>:<c> (parse error: that statement is dropped)
static std::vector<const Statement*> g_int_keep;
static void intReleaseKept() { for (auto* s : g_int_keep) delete s; g_int_keep.clear(); }
static std::string doIStep(Context& ctx, const std::string& src) {
  StringReader reader(src);
  Parser* p = Parser::createInteractiveParser(ctx, reader);
  if (!p) return "perr -1";
  std::string res = "steps=";
  bool first = true;
  try {
    for (;;) {
      Statement* s = nullptr;
      std::string r;
      try { s = p->parseStatement(); }
      catch (ParseError& pe) {
        if (pe.no == EXC_PARSE_EOF) break;
        if (!first) res += ","; first = false;
        res += perr(pe);
        p->clear();
        continue;
      }
      if (s == nullptr) { if (p->state() == Parser::Aborted) break; continue; }
      r = "ok";
      const Statement* x = s;
      while (x) {
        try { x = x->execute(ctx); }
        catch (RuntimeError& re) { r = rerr(re); ctx.onRuntimeError(); break; }   /* as the cli does since 3db7ed2 (c07.py checks the cli's source for it) */
      }
      g_int_keep.push_back(s);
      if (ctx.returnCondition()) { ctx.returnCondition(false); Value* v = ctx.dropReturned(); if (v) delete v; r = "ret"; }
      if (!first) res += ","; first = false;
      res += r;
    }
  } catch (...) { delete p; throw; }
  delete p;
  return res;
}
// END INT

// BEGIN C16 C17
// Ops of the module-permission (C16) and module-object lifetime (C17) checks. The verification modules
// harness/vmod (libbloc_vmod.so.N, libbloc_vmod2.so.N; found through LD_LIBRARY_PATH, see vlib/build_vmod.py)
// write their event log to the memfd named by VMOD_LOG_FD, created here before the first import.
//   plugreset            free every context/executable slot, reset the modules' counters, empty the log,
//                        PluginManager::destroy() (no module loaded, no name granted)              -> ok
//   unban api|cpp <hex>  bloc_unban_plugin / PluginManager::unbanPlugin                              -> ok
//   clearperm api|cpp    bloc_clear_plugin_permissions / PluginManager::clearPermissions             -> ok
//   capinew K            context K := bloc_create_context (always untrusted)                         -> ok
//   capiclone K J        J := bloc_clone_context2(K)                                                 -> ok
//   trust K 0|1          Context::trusted(b) (C++ only; there is no C API for it)                    -> ok
//   istrusted K                                                                                      -> t=0|1
//   parsem K X <hex>     Parser::parse; like `parse` but answers the message too  -> ok | perr <code> <hexmsg>
//   capiparse K X <hex>  bloc_parse_executable (executable kept in slot X)        -> ok | perr <code> <hexmsg>
//   loaded <hex>         PluginManager::findModuleTypeId(name) != 0                                  -> ld=0|1
//   banned <hex>         PluginManager::bannedPlugin(name)                                           -> bn=0|1
//   vlog                 event lines since the last vlog, joined by '~'                              -> log=<lines>
//   live                 number of live objects in vmod / vmod2 (-1 = module not loaded)             -> live=<n>,<m>
//   pwm K                Context::purgeWorkingMemory                                                  -> ok
//   mkfile <hexpath> <hexcontent>  write a file (for include)                                        -> ok
//   hops <script>        a sequence of raw bloc::Complex handle operations on objects of vmod (import by name done
//                        here): n (newInstance, default ctor) c<i> (copy ctor) m<i> (move ctor) d<i> (destructor)
//                        a<i>.<j> (h_i = h_j) s<i>.<j> (h_i.swap(h_j)) x<i>.<j> (h_i.swap(std::move(h_j))),
//                        ops separated by ','; every ctor appends a handle (index from 0); handles that the script
//                        does not destruct are never destructed                                      -> ok
#include <dlfcn.h>
#include <new>
static int g_vlogfd = -1;
static off_t g_vlogrd = 0;
static void vlogInit() {
  if (g_vlogfd >= 0) return;
  g_vlogfd = memfd();
  // keep the descriptor away from the small numbers contexts use
  int hi = fcntl(g_vlogfd, F_DUPFD, 200);
  if (hi >= 0) { close(g_vlogfd); g_vlogfd = hi; }
  setenv("VMOD_LOG_FD", std::to_string(g_vlogfd).c_str(), 1);
}
static std::string vlogRead() {
  vlogInit();
  struct stat st; fstat(g_vlogfd, &st);
  std::string o;
  if (st.st_size > g_vlogrd) {
    o.resize(st.st_size - g_vlogrd);
    ssize_t n = pread(g_vlogfd, &o[0], o.size(), g_vlogrd);
    if (n < 0) n = 0;
    o.resize(n); g_vlogrd += n;
  }
  return o;
}
static std::string vmodSoname(const char* name) {
  // the file name PluginManager::importModuleByName builds (LIBSOVERSION is private to libblocc: read it off
  // the library we are linked with)
  Dl_info info; std::string sov;
  if (dladdr((void*)&bloc_version, &info) && info.dli_fname) {
    char buf[4096]; const char* rp = realpath(info.dli_fname, buf);
    std::string p = rp ? rp : info.dli_fname;          // .../libblocc.so.2.9.3
    size_t k = p.find(".so.");
    if (k != std::string::npos) {
      std::string v = p.substr(k + 4); size_t d1 = v.find('.'); size_t d2 = d1 == std::string::npos ? d1 : v.find('.', d1 + 1);
      sov = d2 == std::string::npos ? v : v.substr(0, d2);
    }
  }
  return std::string("libbloc_") + name + ".so." + sov;
}
static void* vmodSym(const char* name, const char* sym) {
  void* h = dlopen(vmodSoname(name).c_str(), RTLD_LAZY | RTLD_NOLOAD);
  if (!h) return nullptr;
  void* f = dlsym(h, sym);
  dlclose(h);
  return f;
}
static int vmodLive(const char* name) {
  typedef int (*FN)(); FN f = (FN)vmodSym(name, "vmod_live_count");
  return f ? f() : -1;
}
struct RawHandle { alignas(Complex) unsigned char mem[sizeof(Complex)]; Complex* p() { return reinterpret_cast<Complex*>(mem); } };

static bool doOpC1617(const std::vector<std::string>& a, std::string& out) {
  const std::string& cmd = a[0];
  auto K = [&](size_t i) -> CtxSlot& { return g_ctx[atoi(a.at(i).c_str()) & 15]; };
  auto X = [&](size_t i) -> Executable*& { return g_exe[atoi(a.at(i).c_str()) & 15]; };
  auto perrm = [&](int no, const std::string& msg) { return "perr " + std::to_string(no) + " " + (msg.empty() ? std::string("-") : hexenc(msg)); };
  if (cmd == "plugreset") {
    vlogInit();
    for (auto& x : g_exe) { delete x; x = nullptr; }
    for (auto& s : g_ctx) { if (s.ctx) { delete s.ctx; s.ctx = nullptr; } if (s.fd >= 0) { close(s.fd); s.fd = -1; } s.rd = 0; }
    g_objids.clear();
    typedef void (*FN)();
    for (const char* m : {"vmod", "vmod2"}) { FN f = (FN)vmodSym(m, "vmod_reset"); if (f) f(); }
    PluginManager::destroy();
    int rc = ftruncate(g_vlogfd, 0); (void)rc; g_vlogrd = 0; lseek(g_vlogfd, 0, SEEK_SET);
    out = "ok"; return true;
  }
  if (cmd == "unban") {
    std::string n = hexdec(a.at(2));
    if (a.at(1) == "api") bloc_unban_plugin(n.c_str()); else PluginManager::instance().unbanPlugin(n);
    out = "ok"; return true;
  }
  if (cmd == "clearperm") {
    if (a.at(1) == "api") bloc_clear_plugin_permissions(); else PluginManager::instance().clearPermissions();
    out = "ok"; return true;
  }
  if (cmd == "capinew") {
    CtxSlot& s = K(1); s.fd = memfd(); s.rd = 0;
    s.ctx = reinterpret_cast<Context*>(bloc_create_context(s.fd, s.fd));
    out = "ok"; return true;
  }
  if (cmd == "capiclone") {
    CtxSlot& s = K(1); CtxSlot& d = K(2); d.fd = memfd(); d.rd = 0;
    d.ctx = reinterpret_cast<Context*>(bloc_clone_context2(reinterpret_cast<bloc_context*>(s.ctx), d.fd, d.fd));
    out = "ok"; return true;
  }
  if (cmd == "trust") { K(1).ctx->trusted(a.at(2) == "1"); out = "ok"; return true; }
  if (cmd == "istrusted") { out = std::string("t=") + (K(1).ctx->trusted() ? "1" : "0"); return true; }
  if (cmd == "parsem") {
    Context& c = *K(1).ctx; StringReader reader(hexdec(a.at(3)));
    try { X(2) = Parser::parse(c, reader); out = "ok"; }
    catch (ParseError& pe) { X(2) = nullptr; out = perrm((int)pe.no, pe.what()); }
    return true;
  }
  if (cmd == "capiparse") {
    bloc_context* c = reinterpret_cast<bloc_context*>(K(1).ctx);
    std::string src = hexdec(a.at(3));
    bloc_parsing_position pos = {0, 0};
    bloc_executable* x = bloc_parse_executable(c, src.c_str(), &pos);
    if (!x) { X(2) = nullptr; out = perrm(bloc_errno(), bloc_strerror() ? bloc_strerror() : ""); return true; }
    X(2) = reinterpret_cast<Executable*>(x);
    out = "ok"; return true;
  }
  if (cmd == "loaded") { out = std::string("ld=") + (PluginManager::instance().findModuleTypeId(hexdec(a.at(1))) ? "1" : "0"); return true; }
  if (cmd == "banned") { out = std::string("bn=") + (PluginManager::instance().bannedPlugin(hexdec(a.at(1))) ? "1" : "0"); return true; }
  if (cmd == "vlog") {
    std::string l = vlogRead(), o;
    for (char ch : l) o.push_back(ch == '\n' ? '~' : (ch == '|' ? '!' : ch));
    if (!o.empty() && o.back() == '~') o.pop_back();
    out = "log=" + o; return true;
  }
  if (cmd == "live") { out = "live=" + std::to_string(vmodLive("vmod")) + "," + std::to_string(vmodLive("vmod2")); return true; }
  if (cmd == "pwm") { K(1).ctx->purgeWorkingMemory(); out = "ok"; return true; }
  if (cmd == "mkfile") {
    std::string path = hexdec(a.at(1)), content = a.size() > 2 ? hexdec(a.at(2)) : "";
    FILE* f = fopen(path.c_str(), "w"); if (!f) { out = "nofile"; return true; }
    fwrite(content.data(), 1, content.size(), f); fclose(f);
    out = "ok"; return true;
  }
  if (cmd == "hops") {
    vlogInit();
    unsigned tid = PluginManager::instance().importModuleByName("vmod");
    if (!tid) { out = "nomod"; return true; }
    Context ctx(2, 2);
    std::vector<Expression*> noargs;
    static std::vector<RawHandle*> hs;     // storage is never freed: a destructed / leaked handle is never reused
    hs.clear();
    auto fresh = [&]() -> RawHandle* { RawHandle* r = new RawHandle; memset(r->mem, 0, sizeof r->mem); hs.push_back(r); return r; };
    for (const std::string& t : split(a.size() > 1 ? a[1] : "", ',')) {
      if (t.empty()) continue;
      char k = t[0];
      size_t dot = t.find('.');
      size_t i = t.size() > 1 ? (size_t)atoi(t.c_str() + 1) : 0;
      size_t j = dot == std::string::npos ? 0 : (size_t)atoi(t.c_str() + dot + 1);
      if (k != 'n' && i >= hs.size()) { out = "badhandle"; return true; }
      if ((k == 'a' || k == 's' || k == 'x') && j >= hs.size()) { out = "badhandle"; return true; }
      switch (k) {
      case 'n': {
        Complex* c = Complex::newInstance((Type::TypeMinor)tid, -1, ctx, noargs);
        if (!c) { out = "noobj"; return true; }
        // the factory returns a heap handle: keep that very handle (slot = the heap block)
        RawHandle* r = reinterpret_cast<RawHandle*>(c); hs.push_back(r);
        break; }
      case 'c': { Complex* src = hs[i]->p(); RawHandle* r = fresh(); new (r->mem) Complex(*src); break; }
      case 'm': { Complex* src = hs[i]->p(); RawHandle* r = fresh(); new (r->mem) Complex(std::move(*src)); break; }
      case 'd': hs[i]->p()->~Complex(); break;
      case 'a': *hs[i]->p() = *hs[j]->p(); break;
      case 's': hs[i]->p()->swap(*hs[j]->p()); break;
      case 'x': hs[i]->p()->swap(std::move(*hs[j]->p())); break;
      default: out = "badhop"; return true;
      }
    }
    out = "ok"; return true;
  }
  return false;
}
// END C16 C17
// BEGIN C1617
// More host-surface ops of the C16 / C17 checks (everything a host can do to a context's flags or to the plugin manager):
//   settrace K 0|1       bloc_ctx_enable_trace                                                        -> ok
//   istrace K            bloc_ctx_trace                                                               -> tc=0|1
//   deinit               bloc_deinit_plugins (PluginManager::destroy: modules unloaded, grants forgotten) -> ok
//   retrun K <hex>       the embedding loop of a host that ignores returned values: bloc_parse_executable,
//                        bloc_execute, bloc_reset_stop, bloc_free_executable; the returned value is NOT dropped
//                        (it stays in the context until the next return, the purge or the release)
//                                                                       -> ok | ret | rerr <no> | perr <no>
//   dropret K            bloc_drop_returned + bloc_free_value                                         -> ok | none
static bool doOpC1617b(const std::vector<std::string>& a, std::string& out) {
  const std::string& cmd = a[0];
  auto K = [&](size_t i) -> CtxSlot& { return g_ctx[atoi(a.at(i).c_str()) & 15]; };
  if (cmd == "settrace") { bloc_ctx_enable_trace(reinterpret_cast<bloc_context*>(K(1).ctx), a.at(2) == "1" ? bloc_true : bloc_false); out = "ok"; return true; }
  if (cmd == "istrace") { out = std::string("tc=") + (bloc_ctx_trace(reinterpret_cast<bloc_context*>(K(1).ctx)) == bloc_true ? "1" : "0"); return true; }
  if (cmd == "deinit") { bloc_deinit_plugins(); out = "ok"; return true; }
  if (cmd == "retrun") {
    bloc_context* c = reinterpret_cast<bloc_context*>(K(1).ctx);
    std::string src = hexdec(a.at(2));
    bloc_parsing_position pos = {0, 0};
    bloc_executable* x = bloc_parse_executable(c, src.c_str(), &pos);
    if (!x) { out = "perr " + std::to_string(bloc_errno()); return true; }
    bool ok = bloc_execute(x) == bloc_true;
    if (!ok) out = "rerr " + std::to_string(bloc_errno());
    else out = K(1).ctx->returnCondition() ? "ret" : "ok";
    bloc_reset_stop(c);
    bloc_free_executable(x);
    return true;
  }
  if (cmd == "dropret") {
    bloc_value* v = bloc_drop_returned(reinterpret_cast<bloc_context*>(K(1).ctx));
    if (v) { bloc_free_value(v); out = "ok"; } else out = "none";
    return true;
  }
  return false;
}
// END C1617
// BEGIN C11
// Ops of the C11 check (a rejected text does not disturb what was valid before):
//   fnid K            function table with the identity of every functor -> fnid=<hexname>~<arity>~<body>~<ptr>;...
//   ptrace K <hex>    Parser::parse through a line reader that snapshots the context whenever the scanner asks for
//                     more text (i.e. between tokens, when the text has one token per line); the executable is freed
//                     -> ok | perr <code> <l>:<c>   then   trace=<reads>@<snap>^<reads>@<snap>...
//   stepc K J <hex>   the interactive path like `step`, but J := K.clone() is taken before every parseStatement and the
//                     last statement is traced -> <step result> n=<statements run> trace=... pre=<hex of the dump before the
//                     last statement> prefn=<hex of its fnid>
//   snap ::= S<hexname>~<type>~<s><l>;...!E<exec depth>!B<backed symbols>!C<conditions>!F<hexname>~<arity>~<body>~<ptr>;...
static std::string c11Snap(Context& c) {
  std::ostringstream o;
  o << "S";
  for (size_t i = 0; i < c.verifSymbolCount(); ++i) {
    const Symbol& s = c.verifSymbolAt(i);
    if (i) o << ";";
    o << hexenc(s.name()) << "~" << tyName(s, &s.tuple_decl()) << "~" << (s.safety() ? 1 : 0) << (s.locked() ? 1 : 0);
  }
  o << "!E" << c.verifExecDepth() << "!B" << c.verifBackedCount() << "!C" << c.verifConditions() << "!F";
  bool first = true;
  for (const auto& e : c.functorManager().declarations()) {
    if (!first) o << ";"; first = false;
    o << hexenc(e.functor->name) << "~" << e.functor->params.size() << "~" << (e.functor->body ? 1 : 0)
      << "~" << std::hex << (uintptr_t)e.functor.get() << std::dec;
  }
  return o.str();
}

static std::string c11Fnid(Context& c) {
  std::ostringstream o; o << "fnid="; bool first = true;
  for (const auto& e : c.functorManager().declarations()) {
    if (!first) o << ";"; first = false;
    o << hexenc(e.functor->name) << "~" << e.functor->params.size() << "~" << (e.functor->body ? 1 : 0)
      << "~" << std::hex << (uintptr_t)e.functor.get() << std::dec;
  }
  return o.str();
}

class C11SnapReader : public Parser::StreamReader {
  std::string text; size_t pos = 0; Context& ctx;
public:
  std::vector<std::pair<int, std::string> > trace; std::string last; int reads = 0;
  C11SnapReader(const std::string& t, Context& c) : text(t), ctx(c) {}
  void restart() { trace.clear(); last.clear(); reads = 0; }
  int read(Parser*, char* buf, int max_size) override {
    std::string s = c11Snap(ctx);
    if (s != last) { trace.push_back(std::make_pair(reads, s)); last = s; }
    ++reads;
    // the line discipline of the library's StringReader
    int n = 0;
    while (pos < text.size() && n < max_size) { char ch = text[pos++]; if (ch != '\r') buf[n++] = ch; if (ch == '\n') break; }
    return n;
  }
  std::string traceStr() const {
    std::string o = "trace=";
    for (size_t i = 0; i < trace.size(); ++i) { if (i) o.push_back('^'); o += std::to_string(trace[i].first) + "@" + trace[i].second; }
    return o;
  }
};

static std::string c11StepClone(CtxSlot& ks, CtxSlot& js, const std::string& src) {
  Context& ctx = *ks.ctx;
  C11SnapReader reader(src, ctx);
  Parser* p = Parser::createInteractiveParser(ctx, reader);
  if (!p) return "perr -1";
  std::string res = "ok-"; int n = 0; std::string pre, prefn;
  try {
    for (;;) {
      Statement* s = nullptr;
      // the context before the statement about to be parsed: its dump, and an undisturbed twin
      pre = doDump(ctx); prefn = c11Fnid(ctx);
      if (js.ctx) { delete js.ctx; js.ctx = nullptr; }
      if (js.fd < 0) { js.fd = memfd(); js.rd = 0; }
      js.ctx = ctx.clone(js.fd, js.fd);
      reader.restart();
      try { s = p->parseStatement(); }
      catch (ParseError& pe) {
        if (pe.no == EXC_PARSE_EOF) break;
        res = perr(pe); break;
      }
      if (s == nullptr) { if (p->state() == Parser::Aborted) break; continue; }
      try {
        std::list<const Statement*> l; l.push_back(s);
        Executable::run(ctx, l);
        delete s; ++n;
      } catch (RuntimeError& re) { delete s; res = rerr(re); break; }
      if (ctx.returnCondition()) { res = retValue(ctx); ctx.returnCondition(false); break; }
    }
  } catch (...) { delete p; throw; }
  delete p;
  return res + " n=" + std::to_string(n) + " " + reader.traceStr() + " pre=" + hexenc(pre) + " prefn=" + hexenc(prefn);
}
// END C11

static std::string doOp(const std::string& op) {
  std::vector<std::string> a = split(op, ' ');
  const std::string& cmd = a[0];
  auto K = [&](size_t i) -> CtxSlot& { return g_ctx[atoi(a.at(i).c_str()) & 15]; };
  auto X = [&](size_t i) -> Executable*& { return g_exe[atoi(a.at(i).c_str()) & 15]; };
  if (cmd == "new") {
    CtxSlot& s = K(1);
    s.fd = memfd(); s.rd = 0;
    s.ctx = new Context(s.fd, s.fd);
    if (a.size() > 2 && a[2] == "t") s.ctx->trusted(true);
    return "ok";
  }
  if (cmd == "clone") {
    CtxSlot& s = K(1); CtxSlot& d = K(2);
    d.fd = memfd(); d.rd = 0;
    d.ctx = s.ctx->clone(d.fd, d.fd);
    return "ok";
  }
  if (cmd == "free") { CtxSlot& s = K(1); delete s.ctx; s.ctx = nullptr; if (s.fd >= 0) close(s.fd); s.fd = -1; return "ok"; }
  if (cmd == "purge") { K(1).ctx->purge(); return "ok"; }
  if (cmd == "freex") { delete X(1); X(1) = nullptr; return "ok"; }
  if (cmd == "set") {
    Context& c = *K(1).ctx; std::string name = hexdec(a.at(2));
    const char* p = a.at(3).c_str();
    Value v = parseCanon(p);
    try {
      Symbol& s = c.registerSymbol(name, Type());
      c.storeVariable(s.id(), std::move(v));
    } catch (ParseError& pe) { return perr(pe); }
    catch (RuntimeError& re) { return rerr(re); }
    return "ok";
  }
  // BEGIN C19: `args K <hex>,<hex>,…|-` — load the table $ARG exactly as apps/main.cpp:177-183 does
  if (cmd == "args") {
    Context& c = *K(1).ctx;
    Collection* c_arg = new Collection(Value::type_literal.levelUp());
    if (a.at(2) != "-") for (auto& h : split(a.at(2), ',')) c_arg->push_back(Value(new Literal(hexdec(h))));
    try {
      const Symbol& c_sym = c.registerSymbol(std::string("$ARG"), c_arg->table_type());
      c.storeVariable(c_sym.id(), Value(c_arg));
    } catch (ParseError& pe) { return perr(pe); }
    catch (RuntimeError& re) { return rerr(re); }
    return "ok";
  }
  // END C19
  // BEGIN C12: `c12 <hex>` — parse in context 0, unparse, run; re-parse that text in the twin context 1, unparse, run
  if (cmd == "c12") {
    auto unparseX = [](Executable* x) -> std::string {
      int fd = memfd(); FILE* f = fdopen(dup(fd), "w");
      x->unparse(f); fflush(f); fclose(f);
      struct stat st; fstat(fd, &st); std::string o(st.st_size, 0);
      if (st.st_size) { ssize_t n = pread(fd, &o[0], o.size(), 0); (void)n; }
      close(fd);
      return o;
    };
    std::string res;
    std::string text = hexdec(a.at(1));
    for (int k = 0; k < 2; ++k) {
      CtxSlot& s = g_ctx[k];
      if (!s.ctx) { s.fd = memfd(); s.rd = 0; s.ctx = new Context(s.fd, s.fd); }
      std::string n = std::to_string(k + 1);
      StringReader reader(text);
      Executable* x = nullptr;
      try { x = Parser::parse(*s.ctx, reader); }
      catch (ParseError& pe) { res += (k ? " p" : "p") + n + "=" + perr(pe); break; }
      g_exe[k] = x;
      res += (k ? " p" : "p") + n + "=ok";
      text = unparseX(x);
      res += " t" + n + "=" + hexenc(text);
      std::string r = runExec(x, nullptr);
      for (auto& c : r) if (c == ' ') c = '_';
      res += " r" + n + "=" + r;
      res += " o" + n + "=" + hexenc(readOut(s));
      std::string d = doDump(*s.ctx);
      for (auto& c : d) if (c == ' ') c = '_';
      res += " d" + n + "=" + d;
    }
    return res;
  }
  // END C12
  // BEGIN C09: `setq K <hexname> <V>` = `set`, then the symbol's static type is reset to opaque (NO_TYPE):
  // the next parse sees an untyped variable, so the run-time checks of the member methods are reached
  if (cmd == "setq") {
    Context& c = *K(1).ctx; std::string name = hexdec(a.at(2));
    const char* p = a.at(3).c_str();
    Value v = parseCanon(p);
    try {
      Symbol& s = c.registerSymbol(name, Type());
      c.storeVariable(s.id(), std::move(v));
      c.getSymbol(s.id()).upgrade(Type());
    } catch (ParseError& pe) { return perr(pe); }
    catch (RuntimeError& re) { return rerr(re); }
    return "ok";
  }
  // END C09
  if (cmd == "parse") {
    Context& c = *K(1).ctx; StringReader reader(hexdec(a.at(3)));
    try { X(2) = Parser::parse(c, reader); return "ok"; }
    catch (ParseError& pe) { X(2) = nullptr; return perr(pe); }
  }
  if (cmd == "run") {
    Executable* x = X(1); if (!x) return "nox";
    return runExec(x, a.size() > 2 ? K(2).ctx : nullptr);
  }
  if (cmd == "prog") {
    Context& c = *K(1).ctx; StringReader reader(hexdec(a.at(2)));
    /* a well-behaved host resets the stop condition held after a `return` (bloc_reset_stop) */
    c.returnCondition(false);
    Executable* x = nullptr;
    try { x = Parser::parse(c, reader); } catch (ParseError& pe) { return perr(pe); }
    std::string r = runExec(x, nullptr);
    delete x;
    return r;
  }
  if (cmd == "capi") {
    bloc_context* c = reinterpret_cast<bloc_context*>(K(1).ctx);
    std::string src = hexdec(a.at(2));
    bloc_parsing_position pos = {0, 0};
    bloc_executable* x = bloc_parse_executable(c, src.c_str(), &pos);
    if (!x) return "perr " + std::to_string(bloc_errno()) + " " + std::to_string(pos.lno) + ":" + std::to_string(pos.pno);
    std::string r;
    if (bloc_execute(x)) {
      bloc_value* v = bloc_drop_returned(c);
      if (v) { r = "ok " + dumpValue(*reinterpret_cast<Value*>(v), false); bloc_free_value(v); } else r = "ok-";
    } else r = "rerr " + std::to_string(bloc_errno());
    bloc_free_executable(x);
    return r;
  }
  if (cmd == "step") return doStep(*K(1).ctx, hexdec(a.at(2)));
  // BEGIN INT
  if (cmd == "istep") return doIStep(*K(1).ctx, hexdec(a.at(2)));
  // END INT
  if (cmd == "expr") {
    Context& c = *K(1).ctx; StringReader reader(hexdec(a.at(2)));
    Parser* p = Parser::createInteractiveParser(c, reader);
    Expression* e = nullptr; std::string ty;
    try {
      c.parsingBegin();
      e = ParseExpression::expression(*p, c);
      ty = tyName(e->type(c));
      c.parsingEnd();
    } catch (ParseError& pe) { c.parsingEnd(); delete p; return perr(pe); }
    delete p;
    std::string r = "ty=" + ty + " ";
    try {
      Value& v = e->value(c);
      r += "ok " + dumpValue(v, false) + " rt=" + tyName(v.type());
    } catch (RuntimeError& re) { r += rerr(re); }
    delete e;
    c.purgeWorkingMemory();
    return r;
  }
  // BEGIN C05R4 — `exprf <ctx> <hex expr>`: evaluate an expression and print the value of the RESULT cell with its LVALUE flag
  // (top-level `/l` = the node returned a storage cell: variable, constant node, element; `/t` = a temporary). Element flags are dropped.
  if (cmd == "exprf") {
    Context& c = *K(1).ctx; StringReader reader(hexdec(a.at(2)));
    Parser* p = Parser::createInteractiveParser(c, reader);
    Expression* e = nullptr;
    try {
      c.parsingBegin();
      e = ParseExpression::expression(*p, c);
      c.parsingEnd();
    } catch (ParseError& pe) { c.parsingEnd(); delete p; return perr(pe); }
    delete p;
    std::string r;
    try {
      Value& v = e->value(c);
      r = "ok " + dumpValue(v, false) + (v.lvalue() ? "/l" : "/t");
    } catch (RuntimeError& re) { r = rerr(re); }
    delete e;
    c.purgeWorkingMemory();
    return r;
  }
  // END C05R4
  if (cmd == "dump") return doDump(*K(1).ctx);
  if (cmd == "out") return "out=" + hexenc(readOut(K(1)));
  if (cmd == "unparse") {
    Executable* x = X(1); if (!x) return "nox";
    int fd = memfd(); FILE* f = fdopen(dup(fd), "w");
    x->unparse(f); fflush(f); fclose(f);
    struct stat st; fstat(fd, &st); std::string o(st.st_size, 0);
    if (st.st_size) { ssize_t n = pread(fd, &o[0], o.size(), 0); (void)n; }
    close(fd);
    return "txt=" + hexenc(o);
  }
  if (cmd == "tok") {
    Context c(g_ctx[0].fd >= 0 ? g_ctx[0].fd : 2, 2);
    std::vector<int> sizes; bool lineMode = false; int maxl = 1 << 30;
    const std::string& spec = a.at(2);
    if (spec.compare(0, 6, "lines:") == 0) { lineMode = true; maxl = atoi(spec.c_str() + 6); }
    else if (spec != "-") for (auto& s : split(spec, ',')) sizes.push_back(atoi(s.c_str()));
    FragReader reader(hexdec(a.at(1)), sizes, lineMode, maxl);
    // BEGIN C13: `sr` = the library's own StringReader (drops CR, line discipline, 1023 bytes per call)
    StringReader sreader(hexdec(a.at(1)));
    // `rf` = the command line's own file reader (apps/read_file.cpp) on a real FILE*
    FILE* rfile = nullptr;
    if (spec == "rf") {
      std::string txt = hexdec(a.at(1));
      int fd = memfd(); if (!txt.empty()) { ssize_t n = pwrite(fd, txt.data(), txt.size(), 0); (void)n; }
      rfile = fdopen(fd, "r");
    }
    ReadFile freader(rfile);
    Parser* p = spec == "sr" ? Parser::createInteractiveParser(c, sreader)
              : spec == "rf" ? Parser::createInteractiveParser(c, freader)
              : Parser::createInteractiveParser(c, reader);
    // END C13
    std::string o;
    try {
      for (;;) {
        TokenPtr t = p->pop();
        if (!o.empty()) o.push_back(',');
        o += std::to_string(t->code) + ":" + hexenc(t->text);
      }
    } catch (ParseError& pe) { /* end of stream */ }
    delete p;
    if (rfile) fclose(rfile);
    return "toks=" + o;
  }
  // BEGIN C13R2 — every reader of source text (vlib/props/c13.py, families reader_* / path_*)
  //   rdc <sr|rf> <max> <hex>      the chunk returned by EVERY read(buf, max) call of the library's StringReader / of
  //                                apps/read_file.cpp on a FILE*, until a call returns <= 0; buf is a heap block of EXACTLY
  //                                max bytes (an overrun is an ASan report)                       -> chunks=<hex>,<hex>,…
  //   parsef K X <hex> <reader>    Parser::parse over a prescribed reader (reader as in `tok`: n,n,… | lines:<max> | - |
  //                                sr | rf), executable kept in slot X      -> ok | perr <code> [<l>:<c>] msg=<hexwhat>
  //   stepf K <hex> <reader>       the interactive loop (as `step`) over a prescribed reader, stops at the first error
  //                                                                        -> ok- | ok V | rerr … | perr <code> [<l>:<c>] msg=<hexwhat>
  if (cmd == "rdc") {
    int max = atoi(a.at(2).c_str()); if (max <= 0) return "badop";
    std::string txt = a.size() > 3 ? hexdec(a.at(3)) : "";
    StringReader sreader(txt);
    FILE* rfile = nullptr;
    if (a.at(1) == "rf") {
      int fd = memfd(); if (!txt.empty()) { ssize_t n = pwrite(fd, txt.data(), txt.size(), 0); (void)n; }
      rfile = fdopen(fd, "r");
    } else if (a.at(1) != "sr") return "badop";
    ReadFile freader(rfile);
    Parser::StreamReader& rd = rfile ? static_cast<Parser::StreamReader&>(freader) : static_cast<Parser::StreamReader&>(sreader);
    std::string o; int ncalls = 0;
    for (;;) {
      char* buf = (char*) malloc((size_t) max);
      int n = rd.read(nullptr, buf, max);
      if (n <= 0) { free(buf); break; }
      if (ncalls++) o.push_back(',');
      o += hexenc(buf, (size_t) n);
      free(buf);
      if (ncalls > 400000) { o += ",runaway"; break; }
    }
    if (rfile) fclose(rfile);
    return "chunks=" + o;
  }
  if (cmd == "parsef" || cmd == "stepf") {
    bool step = cmd == "stepf";
    Context& c = *K(1).ctx;
    const std::string txt = hexdec(a.at(step ? 2 : 3));
    const std::string& spec = a.at(step ? 3 : 4);
    std::vector<int> sizes; bool lineMode = false; int maxl = 1 << 30;
    if (spec.compare(0, 6, "lines:") == 0) { lineMode = true; maxl = atoi(spec.c_str() + 6); }
    else if (spec != "-" && spec != "sr" && spec != "rf") for (auto& z : split(spec, ',')) sizes.push_back(atoi(z.c_str()));
    FragReader reader(txt, sizes, lineMode, maxl);
    StringReader sreader(txt);
    FILE* rfile = nullptr;
    if (spec == "rf") {
      int fd = memfd(); if (!txt.empty()) { ssize_t n = pwrite(fd, txt.data(), txt.size(), 0); (void)n; }
      rfile = fdopen(fd, "r");
    }
    ReadFile freader(rfile);
    Parser::StreamReader& rd = spec == "sr" ? static_cast<Parser::StreamReader&>(sreader)
                             : spec == "rf" ? static_cast<Parser::StreamReader&>(freader) : static_cast<Parser::StreamReader&>(reader);
    std::string res;
    if (!step) {
      try { X(2) = Parser::parse(c, rd); res = "ok"; }
      catch (ParseError& pe) { X(2) = nullptr; res = perr(pe) + " msg=" + hexenc(std::string(pe.what())); }
    } else {
      Parser* p = Parser::createInteractiveParser(c, rd);
      res = "ok-";
      try {
        for (;;) {
          Statement* s = nullptr;
          try { s = p->parseStatement(); }
          catch (ParseError& pe) { if (pe.no == EXC_PARSE_EOF) break; res = perr(pe) + " msg=" + hexenc(std::string(pe.what())); break; }
          if (s == nullptr) { if (p->state() == Parser::Aborted) break; continue; }
          try { std::list<const Statement*> l; l.push_back(s); Executable::run(c, l); delete s; }
          catch (RuntimeError& re) { delete s; res = rerr(re); break; }
          if (c.returnCondition()) { res = retValue(c); c.returnCondition(false); break; }
        }
      } catch (...) { delete p; if (rfile) fclose(rfile); throw; }
      delete p;
    }
    if (rfile) fclose(rfile);
    return res;
  }
  // END C13R2
  // BEGIN C16 C17
  { std::string r; if (doOpC1617(a, r)) return r; }
  // END C16 C17
  // BEGIN C1617
  { std::string r; if (doOpC1617b(a, r)) return r; }
  // END C1617
// BEGIN C11
  if (cmd == "fnid") return c11Fnid(*K(1).ctx);
  if (cmd == "ptrace") {
    Context& c = *K(1).ctx; C11SnapReader reader(hexdec(a.at(2)), c);
    std::string r;
    try { Executable* x = Parser::parse(c, reader); delete x; r = "ok"; }
    catch (ParseError& pe) { r = perr(pe); }
    return r + " " + reader.traceStr();
  }
  if (cmd == "stepc") return c11StepClone(K(1), K(2), hexdec(a.at(3)));
  // END C11
  return "badop";
}

static std::string g_caseid;
static char g_alarm_msg[512];
static size_t g_alarm_len = 0;
static void onAlarm(int) {
  /* async-signal-safe: the message was prepared when the case started (no allocation here) */
  ssize_t n = write(1, g_alarm_msg, g_alarm_len); (void)n;
  _exit(3);
}

int main(int argc, char** argv) {
  int tmo = 10;
  if (argc > 1) tmo = atoi(argv[1]);
  signal(SIGALRM, onAlarm);
  std::string line;
  while (std::getline(std::cin, line)) {
    if (line.empty()) continue;
    size_t sp = line.find(' ');
    g_caseid = line.substr(0, sp);
    g_alarm_len = (size_t)snprintf(g_alarm_msg, sizeof(g_alarm_msg), "%.480s diverges\n", g_caseid.c_str());
    std::string rest = sp == std::string::npos ? "" : line.substr(sp + 1);
    alarm(tmo);
    std::string out;
    try {
      for (auto& op : split(rest, '|')) {
        if (!out.empty()) out.push_back('|');
        out += doOp(op);
      }
    } catch (ParseError& pe) { out += "|uncaught-" + perr(pe); }
    catch (RuntimeError& re) { out += "|uncaught-" + rerr(re); }
    catch (std::exception& e) { out += std::string("|foreign-exception ") + hexenc(std::string(e.what())); }
    alarm(0);
    // release everything the case created
    for (auto& x : g_exe) { delete x; x = nullptr; }
    for (auto& s : g_ctx) { if (s.ctx) { delete s.ctx; s.ctx = nullptr; } if (s.fd >= 0) { close(s.fd); s.fd = -1; } s.rd = 0; }
    // BEGIN INT
    intReleaseKept();
    // END INT
    g_objids.clear();
    out = g_caseid + " " + out + "\n";
    fwrite(out.data(), 1, out.size(), stdout);
    fflush(stdout);
  }
  return 0;
}
