// C19 — the CLI's own reader, apps/read_file.cpp, compiled from the tree under test and driven directly.
// stdin lines:  <id> <max_size> <hex of the file content>
// stdout lines: <id> <hex chunk>,<hex chunk>,…      (one chunk per ReadFile::read call, until a call returns <= 0)
// The buffer handed to read() is a heap block of EXACTLY max_size bytes: an overrun is an ASan report.
#include <cstdio>
#include <cstdlib>
#include <cstring>
#include <string>
#include <iostream>
#include <sstream>
#include <vector>
#include <apps/read_file.cpp>

static std::string hexdec(const std::string& h) {
  std::string o;
  for (size_t i = 0; i + 1 < h.size(); i += 2) o.push_back((char) std::stoi(h.substr(i, 2), nullptr, 16));
  return o;
}

int main() {
  std::string line;
  static const char* HX = "0123456789abcdef";
  while (std::getline(std::cin, line)) {
    std::istringstream is(line);
    std::string id, hex; int max = 0;
    is >> id >> max >> hex;
    if (id.empty() || max <= 0) continue;
    std::string content = hexdec(hex);
    FILE* f = tmpfile();
    if (!f) { std::cout << id << " error-tmpfile" << std::endl; continue; }
    if (!content.empty()) fwrite(content.data(), 1, content.size(), f);
    rewind(f);
    ReadFile rf(f);
    std::string out;
    int calls = 0;
    for (;;) {
      char* buf = (char*) malloc((size_t) max);
      int n = rf.read(nullptr, buf, max);
      if (n <= 0) { free(buf); break; }
      if (calls++) out.push_back(',');
      for (int i = 0; i < n; ++i) { out.push_back(HX[(unsigned char) buf[i] >> 4]); out.push_back(HX[(unsigned char) buf[i] & 15]); }
      free(buf);
      if (calls > 200000) { out += ",runaway"; break; }
    }
    fclose(f);
    std::cout << id << " chunks=" << out << std::endl;
  }
  return 0;
}
